package main

// C19 - no input makes the library panic or hang: enumeration of panic obligations (index, slice, type assertion,
// explicit panic) in everything reachable from Parse / Dispatch / Help, each discharged by a guard rule, plus the
// loop / recursion termination inventory and the error => nil-remaining return shape of Parse.

import (
	"fmt"
	"go/token"
	"go/types"
	"strings"

	"golang.org/x/tools/go/ssa"
)

func init() {
	register("C19", "other", []string{
		"decides: every index / slice / non-comma-ok type assertion / explicit panic reachable from Parse, Dispatch (up to the user call), Help and completion is discharged by one of the guard rules G0-G9; every loop and recursion is classified as terminating; a failed Parse returns (nil, err)",
		"not decided: general nil-dereference freedom (fields are non-nil by construction; nilaway is only a cross-reference), stack / memory exhaustion, user callbacks; regular expressions are RE2 (linear time, trusted)",
	}, rC19Panics, rC19Termination, rC19ParseReturns, rC19NilMaps, rC19NewSites, rC19IterAfterNext, rC19NoBlocking, rC19Repeat)
}

func c19Roots(w *World) []*ssa.Function {
	roots := []*ssa.Function{w.Fn(nParse), w.Fn(nDispatch), w.Fn("(*getoptions.GetOpt).Help"), w.Fn(nParseCLI)}
	// command functions of the library itself (the built-in help command): Dispatch runs them through the same
	// dynamic call that runs the user's functions, which the reachability cuts off
	seen := map[*ssa.Function]bool{}
	for _, fn := range w.Funcs {
		if w.PkgOfFn(fn) == nil {
			continue
		}
		eachInstr(fn, func(in ssa.Instruction) {
			var ops []*ssa.Value
			ops = in.Operands(ops)
			for i, op := range ops {
				if op == nil || *op == nil {
					continue
				}
				if c, ok := in.(ssa.CallInstruction); ok && i == 0 && !c.Common().IsInvoke() && c.Common().Value == *op {
					continue // the callee position of a call
				}
				f, ok := (*op).(*ssa.Function)
				if !ok || w.PkgOfFn(f) == nil || f.Blocks == nil || seen[f] || f.Parent() != nil {
					continue
				}
				sg := f.Signature
				if sg.Params().Len() == 3 && sg.Results().Len() == 1 && typeString(sg.Params().At(0).Type()) == "context.Context" && strings.HasSuffix(typeString(sg.Params().At(1).Type()), "getoptions.GetOpt") {
					seen[f] = true
					roots = append(roots, f)
				}
			}
		})
	}
	// the modifiers that consume environment content (GetEnv): they run while the program is being declared, on
	// whatever the environment holds
	for _, fn := range w.Funcs {
		if w.PkgOfFn(fn) == nil || fn.Parent() == nil || seen[fn] {
			continue
		}
		if len(callsTo(fn, "os.Getenv"))+len(callsTo(fn, "os.LookupEnv")) > 0 {
			seen[fn] = true
			roots = append(roots, fn)
		}
	}
	return roots
}

// lenOf: v is len(x); returns x.
func lenOf(v ssa.Value) (ssa.Value, bool) {
	c, ok := v.(*ssa.Call)
	if !ok || calleeName(c) != "builtin:len" {
		return nil, false
	}
	return c.Call.Args[0], true
}

// sameColl: two SSA values denote the same collection (identical, or loads of the same unmodified location).
func sameColl(a, b ssa.Value) bool {
	if a == b || sameVal(a, b) {
		return true
	}
	// loads of the same local that is never re-assigned between: accept identical address values
	ua, ok1 := a.(*ssa.UnOp)
	ub, ok2 := b.(*ssa.UnOp)
	if ok1 && ok2 && ua.Op == token.MUL && ub.Op == token.MUL && ua.X == ub.X {
		// the address must not be stored to between the two loads: require no store to it in a cycle-free region;
		// conservative: accept only if every store to the address dominates both loads
		okAll := true
		if refs := ua.X.Referrers(); refs != nil {
			for _, r := range *refs {
				if st, ok := r.(*ssa.Store); ok && st.Addr == ua.X {
					if !(st.Block().Dominates(ua.Block()) && st.Block().Dominates(ub.Block())) {
						okAll = false
					}
					// a store between the two in the same block
					if st.Block() == ua.Block() || st.Block() == ub.Block() {
						pos := map[ssa.Instruction]int{}
						for i, in := range st.Block().Instrs {
							pos[in] = i
						}
						pa, ia := pos[ssa.Instruction(ua)]
						pb, ib := pos[ssa.Instruction(ub)]
						ps := pos[ssa.Instruction(st)]
						if ia && ib && ((pa < ps && ps < pb) || (pb < ps && ps < pa)) {
							okAll = false
						}
					}
				}
			}
		}
		return okAll
	}
	return false
}

// minLenFact: facts at b establish len(coll) >= n; returns the largest n established.
func minLenAt(b *ssa.BasicBlock, coll ssa.Value) int64 {
	best := int64(0)
	for _, f := range factsAt(b) {
		if f.Y == nil {
			continue
		}
		x, y, op := f.X, f.Y, f.Op
		if _, ok := constInt(x); ok {
			// k OP len  ->  len OP' k
			x, y = y, x
			switch op {
			case token.LSS:
				op = token.GTR
			case token.GTR:
				op = token.LSS
			case token.LEQ:
				op = token.GEQ
			case token.GEQ:
				op = token.LEQ
			}
		}
		c, ok := lenOf(x)
		if !ok || !sameColl(c, coll) {
			continue
		}
		k, ok := constInt(y)
		if !ok {
			continue
		}
		var n int64
		switch op {
		case token.GTR:
			n = k + 1
		case token.GEQ, token.EQL:
			n = k
		case token.NEQ:
			if k == 0 {
				n = 1
			}
		}
		if n > best {
			best = n
		}
	}
	return best
}

type panicOb struct {
	in   ssa.Instruction
	kind string
}

func rC19Panics(w *World, r *Report) {
	ru := r.Rule("R19.1", "panic obligations: every index, slice expression, non-comma-ok type assertion and explicit panic in the functions reachable from Parse / Dispatch / Help / completion is discharged by a guard rule (G0 literal bounds, G1 range index, G2 constant index under a length fact, G3 len-1, G4 SplitN with a Contains fact, G5 submatch groups, G6 non-empty group runes, G7 sort callback, G8 definer kind/type agreement, G9 iterator after Next)", 150)
	roots := c19Roots(w)
	for _, rt := range roots {
		if rt == nil {
			ru.Undecided("anchor", "-", "an entry point was not found")
			return
		}
	}
	reach := w.reachableFrom(roots, cutUserCode)
	groups := regexGroupCounts(w)
	nonEmptyGroups := regexGroupsNonEmpty(w)
	counts := map[string]int{}
	for _, fn := range w.Funcs {
		if !reach[fn] {
			continue
		}
		eachInstr(fn, func(in ssa.Instruction) {
			kind, rule, why := classifyPanicSite(w, fn, in, groups, nonEmptyGroups)
			if kind == "" {
				return
			}
			key := short(fn) + "/" + kind
			if rule != "" {
				counts[rule]++
				if rule == "G0" {
					ru.Present(key, w.IPos(in), rule+": "+why)
				} else {
					ru.OK(key, w.IPos(in), rule+": "+why)
				}
			} else {
				ru.Bad(key, w.IPos(in), "not discharged by any guard rule: "+why+" ["+describeInstr(in)+"]")
			}
		})
	}
	r.Note("guard rule usage: %v", counts)
}

// regexGroupCounts: global regexp -> number of capture groups.
func regexGroupCounts(w *World) map[*ssa.Global]int {
	out := map[*ssa.Global]int{}
	for _, ri := range w.regexConstants() {
		if ri.Global != nil && ri.Err == nil {
			out[ri.Global] = ri.Re.MaxCap()
		}
	}
	return out
}

func classifyPanicSite(w *World, fn *ssa.Function, in ssa.Instruction, groups map[*ssa.Global]int, nonEmpty map[*ssa.Global][]bool) (kind, rule, why string) {
	switch x := in.(type) {
	case *ssa.Panic:
		return "panic", "", "explicit panic reachable from an entry point"
	case *ssa.TypeAssert:
		if x.CommaOk {
			return "", "", ""
		}
		if short(fn) == "option.New" {
			return "type-assert", "G8", "asserted type agrees with the pointer type at every call site (C06 R06.5 definers, newUnknownCLIOption)"
		}
		return "type-assert", "", "type assertion without comma-ok"
	case *ssa.FieldAddr:
		// a field of a record fetched from a map: the zero value of a missing key is a nil pointer
		var lk *ssa.Lookup
		commaOK := false
		switch v := x.X.(type) {
		case *ssa.Lookup:
			lk = v
		case *ssa.Extract:
			if l2, ok := v.Tuple.(*ssa.Lookup); ok && v.Index == 0 {
				lk, commaOK = l2, true
			}
		}
		if phi, ok := x.X.(*ssa.Phi); ok && lk == nil {
			// a cursor that is advanced by map lookups (node = node.children[key]): every lookup that can flow into
			// the dereferenced value needs its own discharge, or the merged value is tested against nil
			if _, isPtr := phi.Type().Underlying().(*types.Pointer); !isPtr {
				return "", "", ""
			}
			for _, f := range factsAt(x.Block()) {
				if f.Op == token.NEQ && f.Y != nil && (f.X == x.X && isNilConst(f.Y) || f.Y == x.X && isNilConst(f.X)) {
					return "map-value-deref", "GM2", "dereferenced under value != nil"
				}
			}
			// a (value, ok) pair merged edge by edge: the pointer is nil only where ok is false, comes from a comma-ok
			// lookup exactly where ok is that lookup's ok, and is dereferenced under ok
			for _, f := range factsAt(x.Block()) {
				bphi, isB := f.X.(*ssa.Phi)
				if f.Op != token.ILLEGAL || !f.Truth || !isB || bphi.Block() != phi.Block() || len(bphi.Edges) != len(phi.Edges) {
					continue
				}
				paired := true
				for i, e := range phi.Edges {
					be := bphi.Edges[i]
					if isNilConst(e) {
						if c, ok := be.(*ssa.Const); !ok || c.Value == nil || c.Value.String() != "false" {
							paired = false
						}
						continue
					}
					ev, ok1 := e.(*ssa.Extract)
					bv, ok2 := be.(*ssa.Extract)
					if !ok1 || !ok2 || ev.Tuple != bv.Tuple || ev.Index != 0 || bv.Index != 1 {
						paired = false
						continue
					}
					if lk, ok := ev.Tuple.(*ssa.Lookup); !ok || !lk.CommaOk {
						paired = false
					}
				}
				if paired {
					return "map-value-deref", "GM1", "value and ok of a comma-ok lookup merged pairwise (nil with false): dereferenced under ok"
				}
			}
			n, bad := lookupEdges(phi, map[*ssa.Phi]bool{})
			// a local that starts as nil and is set inside a loop (`var last *T; for … { last = x }; last.f`)
			hasNil := false
			for _, l := range phiLeaves(phi, map[ssa.Value]bool{}) {
				if isNilConst(l) {
					hasNil = true
				}
			}
			if hasNil {
				if why := nilCoupledToList(w, fn, x, phi); why != "" {
					return "nil-local-deref", "", "field of a local that is nil until a loop assigns it: " + why
				}
				if n == 0 || bad == nil {
					return "nil-local-deref", "GN1", "non-nil whenever the list tested non-empty at the use holds an element: every iteration that appends to that list leaves the local assigned"
				}
			}
			if n == 0 {
				return "", "", ""
			}
			if bad != nil {
				return "map-value-deref", "", "field of a value that may come from a map lookup with a missing key (nil pointer): " + bad.String()
			}
			return "map-value-deref", "GM1-3", "every lookup flowing into the value is discharged on its own edge (ok tested, value != nil, or key of the same map)"
		}
		if lk == nil {
			return "", "", ""
		}
		if _, isMap := lk.X.Type().Underlying().(*types.Map); !isMap {
			return "", "", ""
		}
		if _, isPtr := x.X.Type().Underlying().(*types.Pointer); !isPtr {
			return "", "", ""
		}
		return classifyMapValueDeref(w, fn, x, lk, commaOK)
	case *ssa.IndexAddr:
		return classifyIndex(w, fn, in, x.X, x.Index, groups, nonEmpty)
	case *ssa.Index:
		return classifyIndex(w, fn, in, x.X, x.Index, groups, nonEmpty)
	case *ssa.Lookup:
		if b, ok := x.X.Type().Underlying().(*types.Basic); ok && b.Info()&types.IsString != 0 {
			return classifyIndex(w, fn, in, x.X, x.Index, groups, nonEmpty)
		}
		return "", "", ""
	case *ssa.Slice:
		return classifySlice(w, fn, x, nonEmpty)
	}
	return "", "", ""
}

// nilCoupledToList discharges the dereference fa of a pointer local P that is nil before a loop: at the use some list S
// is known to be non-empty, S is empty where the loop is entered, and every iteration that appends to S leaves P
// assigned (non-nil, resolved along the edges that iteration takes) when it ends. Appends of a constant that cannot
// satisfy a HasSuffix(S[0], c) guard of the use are exempt. Returns "" when discharged, else the reason.
func nilCoupledToList(w *World, fn *ssa.Function, fa *ssa.FieldAddr, p *ssa.Phi) string {
	// the loop-header phi through which nil enters
	var L *ssa.Phi
	var walk func(v ssa.Value, seen map[ssa.Value]bool)
	walk = func(v ssa.Value, seen map[ssa.Value]bool) {
		ph, ok := v.(*ssa.Phi)
		if !ok || seen[v] {
			return
		}
		seen[v] = true
		h := ph.Block()
		isHeader := false
		for _, pr := range h.Preds {
			if h.Dominates(pr) {
				isHeader = true
			}
		}
		for i, e := range ph.Edges {
			if isNilConst(e) && isHeader && !h.Dominates(h.Preds[i]) {
				L = ph
			}
			walk(e, seen)
		}
	}
	walk(p, map[ssa.Value]bool{})
	if L == nil {
		return "no loop found that assigns it"
	}
	h := L.Block()
	loop := naturalLoop(h)
	b := fa.Block()
	// the list known to be non-empty at the use
	var S *ssa.Phi
	var suffixes []string
	for _, f := range factsAt(b) {
		for _, side := range []ssa.Value{f.X, f.Y} {
			if side == nil {
				continue
			}
			if c, ok := lenOf(side); ok && minLenAt(b, c) >= 1 {
				if ph, ok := c.(*ssa.Phi); ok && ph.Block() == h {
					S = ph
				}
			}
		}
		if f.Op == token.ILLEGAL && f.Truth {
			if c, ok := f.X.(*ssa.Call); ok && calleeName(c) == "strings.HasSuffix" {
				if sfx, ok := constString(c.Call.Args[1]); ok {
					suffixes = append(suffixes, sfx)
				}
			}
		}
	}
	if S == nil {
		return "no list is known to be non-empty at the use"
	}
	for i, e := range S.Edges {
		if h.Dominates(h.Preds[i]) {
			continue
		}
		empty := isNilConst(e)
		if sl, ok := e.(*ssa.Slice); ok {
			if n, ok := arrayLenOfPtr(sl.X.Type()); ok && n == 0 {
				empty = true
			}
		}
		if !empty {
			return "the list is not known to be empty where the loop starts"
		}
	}
	ig := buildIG(fn)
	for blk := range loop {
		for _, in := range blk.Instrs {
			c, ok := in.(*ssa.Call)
			if !ok || calleeName(c) != "builtin:append" || !appendChainOf(c.Call.Args[0], S, map[ssa.Value]bool{}) {
				continue
			}
			// exempt: a constant element that cannot satisfy the suffix guard of the use
			exempt := false
			if els, _, ok := elementsOf(c.Call.Args[1], map[ssa.Value]bool{}); ok && len(els) == 1 && len(suffixes) > 0 {
				for _, f := range factsAt(blk) {
					if f.Op == token.EQL && f.Y != nil && f.X == els[0] {
						if sv, ok := constString(f.Y); ok {
							exempt = true
							for _, sfx := range suffixes {
								if strings.HasSuffix(sv, sfx) {
									exempt = false
								}
							}
						}
					}
				}
			}
			if exempt {
				continue
			}
			ig.recordEdges = map[[2]*ssa.BasicBlock]bool{}
			_, okR := ig.reachVSInit(ig.after(c), func(i2 ssa.Instruction) bool { return i2 == h.Instrs[0] }, nil, nil)
			edges := ig.recordEdges
			ig.recordEdges = nil
			if !okR {
				return "path search exhausted"
			}
			for i, pr := range h.Preds {
				if !h.Dominates(pr) || !edges[[2]*ssa.BasicBlock{pr, h}] {
					continue
				}
				for _, v := range valuesFromEdges(L.Edges[i], edges, map[ssa.Value]bool{}) {
					if _, isPhi := v.(*ssa.Phi); isPhi || isNilConst(v) {
						return "an iteration can add to the list (at " + w.IPos(c) + ") and end without having assigned the local"
					}
				}
			}
		}
	}
	return ""
}

// lookupEdges walks the edges of a pointer-typed phi: n = number of map lookups that flow in, bad = one that is not
// discharged on its edge (GM1: comma-ok tested true at the predecessor, GM2: value != nil there, GM3: key of the same map).
func lookupEdges(phi *ssa.Phi, seen map[*ssa.Phi]bool) (n int, bad *ssa.Lookup) {
	if seen[phi] {
		return 0, nil
	}
	seen[phi] = true
	for i, e := range phi.Edges {
		pred := phi.Block().Preds[i]
		var lk *ssa.Lookup
		commaOK := false
		switch v := e.(type) {
		case *ssa.Phi:
			n2, b2 := lookupEdges(v, seen)
			n += n2
			if b2 != nil && bad == nil {
				// the inner phi's value may still be tested on the way here
				ok := false
				for _, f := range factsAt(pred) {
					if f.Op == token.NEQ && f.Y != nil && (f.X == e && isNilConst(f.Y) || f.Y == e && isNilConst(f.X)) {
						ok = true
					}
				}
				if !ok {
					bad = b2
				}
			}
			continue
		case *ssa.Lookup:
			lk = v
		case *ssa.Extract:
			if l2, ok := v.Tuple.(*ssa.Lookup); ok && v.Index == 0 {
				lk, commaOK = l2, true
			}
		}
		if lk == nil {
			continue
		}
		if _, isMap := lk.X.Type().Underlying().(*types.Map); !isMap {
			continue
		}
		n++
		ok := keyOfSameMap(lk.Index, lk.X, map[ssa.Value]bool{})
		for _, f := range factsAt(pred) {
			if commaOK && f.Op == token.ILLEGAL && f.Truth {
				if ex, isEx := f.X.(*ssa.Extract); isEx && ex.Index == 1 && ex.Tuple == ssa.Value(lk) {
					ok = true
				}
			}
			if f.Op == token.NEQ && f.Y != nil && (f.X == e && isNilConst(f.Y) || f.Y == e && isNilConst(f.X)) {
				ok = true
			}
		}
		if !ok && bad == nil {
			bad = lk
		}
	}
	return n, bad
}

// classifyMapValueDeref: GM guard rules for `m[k].f` where m maps to pointers.
func classifyMapValueDeref(w *World, fn *ssa.Function, fa *ssa.FieldAddr, lk *ssa.Lookup, commaOK bool) (string, string, string) {
	kind := "map-value-deref"
	b := fa.Block()
	for _, f := range factsAt(b) {
		// GM1: the comma-ok result was tested
		if commaOK && f.Op == token.ILLEGAL && f.Truth {
			if ex, ok := f.X.(*ssa.Extract); ok && ex.Index == 1 && ex.Tuple == ssa.Value(lk) {
				return kind, "GM1", "dereferenced only when the lookup reported ok"
			}
		}
		// GM2: the value was compared with nil
		if f.Op == token.NEQ && f.Y != nil && (f.X == fa.X && isNilConst(f.Y) || f.Y == fa.X && isNilConst(f.X)) {
			return kind, "GM2", "dereferenced under value != nil"
		}
	}
	// GM3: the key is a key of the same map: the loop variable of a range over it, or an element of a slice that
	// only collects such loop variables (the sorted key list idiom)
	if keyOfSameMap(lk.Index, lk.X, map[ssa.Value]bool{}) {
		return kind, "GM3", "the key was obtained by ranging over the same map"
	}
	return kind, "", "field of a map element that may be missing (nil pointer): " + lk.String()
}

// keyOfSameMap: k is a range key of map m (same collection), directly or through a slice of collected keys.
func keyOfSameMap(k, m ssa.Value, seen map[ssa.Value]bool) bool {
	if seen[k] {
		return true
	}
	seen[k] = true
	switch x := k.(type) {
	case *ssa.Extract:
		if nx, ok := x.Tuple.(*ssa.Next); ok && x.Index == 1 {
			if rg, ok := nx.Iter.(*ssa.Range); ok {
				return sameColl(rg.X, m)
			}
		}
	case *ssa.UnOp:
		// element of a slice: every element of the slice must be a key of m
		if x.Op == token.MUL {
			if ia, ok := x.X.(*ssa.IndexAddr); ok {
				if km, _, ok := keysCallOf(ia.X); ok {
					return sameColl(km, m)
				}
				els, spreads, ok := elementsOf(ia.X, map[ssa.Value]bool{})
				if !ok || len(spreads) > 0 || len(els) == 0 {
					return false
				}
				for _, e := range els {
					if !keyOfSameMap(e, m, seen) {
						return false
					}
				}
				return true
			}
		}
	case *ssa.Phi:
		for _, e := range x.Edges {
			if !keyOfSameMap(e, m, seen) {
				return false
			}
		}
		return true
	}
	return false
}

func arrayLenOfPtr(t types.Type) (int64, bool) {
	if p, ok := t.Underlying().(*types.Pointer); ok {
		if a, ok := p.Elem().Underlying().(*types.Array); ok {
			return a.Len(), true
		}
	}
	if a, ok := t.Underlying().(*types.Array); ok {
		return a.Len(), true
	}
	return 0, false
}

func classifyIndex(w *World, fn *ssa.Function, in ssa.Instruction, coll, idx ssa.Value, groups map[*ssa.Global]int, nonEmpty map[*ssa.Global][]bool) (string, string, string) {
	kind := "index"
	// G0: array with constant index in bounds
	if n, ok := arrayLenOfPtr(coll.Type()); ok {
		if k, ok := constInt(idx); ok && k >= 0 && k < n {
			return kind, "G0", "constant index into a fixed-size array"
		}
	}
	// G0 (literal): a slice literal []T{…} with N elements indexed by a constant below N
	if sl, ok := coll.(*ssa.Slice); ok && sl.Low == nil && sl.High == nil {
		if n, ok := arrayLenOfPtr(sl.X.Type()); ok {
			if _, isAlloc := sl.X.(*ssa.Alloc); isAlloc {
				if k, ok := constInt(idx); ok && k >= 0 && k < n {
					return kind, "G0", "constant index into a slice literal of known length"
				}
			}
		}
	}
	b := in.Block()
	// G1: idx < len(coll) established (range loops and explicit guards), idx >= 0 because it is a range counter or len-derived
	for _, f := range factsAt(b) {
		if f.Op == token.LSS && f.Y != nil && f.X == idx {
			if c, ok := lenOf(f.Y); ok && sameColl(c, coll) && nonNegative(idx) {
				return kind, "G1", "index below len of the same collection (range loop / explicit guard)"
			}
			// the indexed slice was made with the length of the collection the index ranges over: make([]T, len(c))
			if c, ok := lenOf(f.Y); ok && nonNegative(idx) {
				if mk, ok := coll.(*ssa.MakeSlice); ok {
					if c2, ok := lenOf(mk.Len); ok && sameColl(c2, c) {
						return kind, "G1", "index below len(c) into a slice made with make([]T, len(c))"
					}
				}
			}
			// hoisted length: t = len(coll) computed before the loop
			if ln, ok := f.Y.(*ssa.Call); ok && calleeName(ln) == "builtin:len" && sameColl(ln.Call.Args[0], coll) && nonNegative(idx) {
				return kind, "G1", "index below len of the same collection"
			}
		}
	}
	// G1r: the counter of a rotated counting loop (`for i := range n`): 0 on entry under 0 < n, i+1 on the back edge
	// under i+1 < n - so 0 <= i < n throughout the body; n is the length of the collection (or the slice was made with it)
	if phi, ok := idx.(*ssa.Phi); ok {
		if n := rotatedBound(phi); n != nil {
			if c, ok := lenOf(n); ok && sameColl(c, coll) {
				return kind, "G1", "counter of a `range len(c)` loop indexing c"
			}
			if mk, ok := coll.(*ssa.MakeSlice); ok && (mk.Len == n || sameVal(mk.Len, n)) {
				return kind, "G1", "counter of a `range n` loop indexing a slice made with length n"
			}
			if c, ok := lenOf(n); ok {
				if mk, ok := coll.(*ssa.MakeSlice); ok {
					if c2, ok := lenOf(mk.Len); ok && sameColl(c2, c) {
						return kind, "G1", "counter of a `range len(c)` loop indexing a slice made with make([]T, len(c))"
					}
				}
			}
		}
	}
	// G1d: a down-counter: n-k (k >= 1) on entry, counter-k' (k' >= 1) on the back edges, used under counter >= 0,
	// where n is the length the indexed slice was made with (or the len of the indexed collection)
	if phi, ok := idx.(*ssa.Phi); ok {
		h := phi.Block()
		good := len(phi.Edges) >= 2
		for i, e := range phi.Edges {
			b2, ok := e.(*ssa.BinOp)
			k := int64(0)
			if ok {
				k, _ = constInt(b2.Y)
			}
			if !ok || b2.Op != token.SUB || k < 1 {
				good = false
				break
			}
			if h.Dominates(h.Preds[i]) {
				if b2.X != ssa.Value(phi) {
					good = false
				}
				continue
			}
			isLen := false
			if mk, ok := coll.(*ssa.MakeSlice); ok && (mk.Len == b2.X || sameVal(mk.Len, b2.X)) {
				isLen = true
			}
			if c, ok := lenOf(b2.X); ok && sameColl(c, coll) {
				isLen = true
			}
			if !isLen {
				good = false
			}
		}
		if good {
			for _, f := range factsAt(b) {
				if f.Y == nil || f.X != idx {
					continue
				}
				if k, ok := constInt(f.Y); ok && (f.Op == token.GEQ && k >= 0 || f.Op == token.GTR && k >= -1) {
					return kind, "G1", "down-counter starting below the length and used only while it is not negative"
				}
			}
		}
	}
	// G7: sort callback parameters
	if fn.Parent() != nil {
		if p, ok := idx.(*ssa.Parameter); ok && isSortCallback(fn) {
			_ = p
			return kind, "G7", "index parameters of a sort.Slice less function on the slice being sorted"
		}
	}
	if k, ok := constInt(idx); ok && k >= 0 {
		// G5: submatch
		if rxs := submatchRegexes(w, coll, map[ssa.Value]bool{}); len(rxs) > 0 {
			all := true
			for _, g := range rxs {
				if n, ok := groups[g]; !ok || int(k) > n {
					all = false
				}
			}
			if all && minLenAt(b, coll) >= 1 {
				return kind, "G5", fmt.Sprintf("submatch index %d <= number of groups, under len(match) > 0 (a non-nil match has groups+1 entries)", k)
			}
			return kind, "", "submatch index not covered by the pattern's groups or no len(match) > 0 fact"
		}
		// G2: length fact
		if minLenAt(b, coll) >= k+1 {
			return kind, "G2", fmt.Sprintf("constant index %d under a fact len >= %d", k, k+1)
		}
		// G2c: a loop accumulator that only grows: phi [v0 with len(v0) >= k+1 established before the loop, append(phi, …)]
		if phi, ok := coll.(*ssa.Phi); ok {
			all := true
			for i, e := range phi.Edges {
				if c, ok := e.(*ssa.Call); ok && calleeName(c) == "builtin:append" && phiRelated(c.Call.Args[0], phi) {
					continue
				}
				if minLenAt(phi.Block().Preds[i], e) < k+1 {
					all = false
				}
			}
			if all {
				return kind, "G2", fmt.Sprintf("constant index %d of an accumulator that starts with len >= %d and only grows", k, k+1)
			}
		}
		// G2b: the collection is provably non-empty (literal / matcher result under len checks)
		if k == 0 {
			if ok, _ := w.provablyNonEmpty(coll, nil, 0); ok {
				return kind, "G2", "index 0 of a provably non-empty slice"
			}
		}
		// G4: SplitN / Split results
		if c, ok := coll.(*ssa.Call); ok {
			switch calleeName(c) {
			case "strings.SplitN":
				n, okN := constInt(c.Call.Args[2])
				sep, okS := constString(c.Call.Args[1])
				if k == 0 && (!okN || n != 0) {
					return kind, "G4", "element 0 of a SplitN result (n != 0) always exists"
				}
				// a separator that is not a constant: element 1 exists when the text is known to contain that very
				// value and the value cannot be empty
				if !okS && okN && k == 1 && n >= 2 && nonEmptyStringAt(c.Call.Args[1], b, 0) {
					for _, f := range factsAt(b) {
						if f.Op != token.ILLEGAL || !f.Truth {
							continue
						}
						cc, ok := f.X.(*ssa.Call)
						if ok && calleeName(cc) == "strings.Contains" && cc.Call.Args[0] == c.Call.Args[0] && cc.Call.Args[1] == c.Call.Args[1] {
							return kind, "G4", "SplitN(s, sep, n)[1] where s is known to contain sep and sep cannot be empty"
						}
					}
				}
				if okN && okS && k < n && containsFact(w, b, c.Call.Args[0], sep, int(k)) {
					return kind, "G4", fmt.Sprintf("SplitN(s, %q, %d)[%d] where s is known to contain the separator", sep, n, k)
				}
			case "strings.Split":
				if k == 0 {
					if sep, ok := constString(c.Call.Args[1]); ok && sep != "" {
						return kind, "G4", "element 0 of a Split result with a non-empty separator always exists"
					}
				}
			}
		}
		// G6: []rune(g)[0] of a non-empty group
		if cv, ok := coll.(*ssa.Convert); ok && typeString(cv.Type()) == "[]rune" && k == 0 {
			if nonEmptyGroupElem(w, cv.X, nonEmpty) {
				return kind, "G6", "first rune of a capture group that cannot be empty"
			}
		}
		// G3 variant: x[len(x)-1] handled below
	}
	// G3: x[len(x)-1] under len(x) > 0
	if bo, ok := idx.(*ssa.BinOp); ok && bo.Op == token.SUB {
		if k, ok := constInt(bo.Y); ok && k >= 1 {
			if c, ok := lenOf(bo.X); ok && sameColl(c, coll) {
				if nonNegFact(b, idx) {
					return kind, "G3", fmt.Sprintf("index len-%d under the fact that it is >= 0", k)
				}
				if minLenAt(b, coll) >= k {
					return kind, "G3", fmt.Sprintf("index len-%d under len >= %d", k, k)
				}
				if ok2, _ := w.provablyNonEmpty(coll, nil, 0); ok2 && k == 1 {
					return kind, "G3", "len-1 of a provably non-empty slice"
				}
				// the accumulator of a loop over the runes of a capture group that cannot be empty, read after the loop
				if phi, isPhi := coll.(*ssa.Phi); isPhi && k == 1 && afterLoopOf(phi.Block(), b) {
					if ok2, why := w.provablyNonEmpty(coll, func(v ssa.Value) bool { return nonEmptyGroupElem(w, v, nonEmpty) }, 0); ok2 {
						return kind, "G3", "len-1 after the loop: " + why
					}
				}
				// len(opts) > 0 tested on a phi of the same accumulator
				for _, f := range factsAt(b) {
					if f.Y != nil && f.Op == token.GTR {
						if c2, ok := lenOf(f.X); ok && phiRelated(c2, coll) {
							if k0, ok := constInt(f.Y); ok && k0+1 >= k {
								return kind, "G3", "len-1 under len > 0"
							}
						}
					}
				}
			}
		}
	}
	// G9: the iterator
	if strings.HasPrefix(short(fn), "(*sliceiterator.Iterator).") {
		return kind, "G9", iteratorIndexWhy(fn)
	}
	return kind, "", "index " + idx.String() + " of " + coll.String()
}

func phiRelated(a, b ssa.Value) bool {
	if a == b {
		return true
	}
	for _, l := range phiLeaves(a, map[ssa.Value]bool{}) {
		if l == b {
			return true
		}
	}
	for _, l := range phiLeaves(b, map[ssa.Value]bool{}) {
		if l == a {
			return true
		}
	}
	return false
}

// nonNegative: idx is a range counter (phi starting at -1 incremented before use), a constant >= 0, or len-derived.
func nonNegative(v ssa.Value) bool {
	switch x := v.(type) {
	case *ssa.Const:
		k, ok := constInt(x)
		return ok && k >= 0
	case *ssa.BinOp:
		if x.Op == token.ADD {
			if phi, ok := x.X.(*ssa.Phi); ok {
				if k, ok := constInt(x.Y); ok && k == 1 {
					// phi [-1, self+1]
					for _, e := range phi.Edges {
						if e == ssa.Value(x) {
							continue
						}
						if c, ok := constInt(e); !ok || c < -1 {
							return false
						}
					}
					return true
				}
			}
		}
	case *ssa.Phi:
		for _, e := range x.Edges {
			if bo, ok := e.(*ssa.BinOp); ok && bo.Op == token.ADD && bo.X == ssa.Value(x) {
				continue
			}
			if !nonNegative(e) {
				return false
			}
		}
		return true
	case *ssa.Call:
		return calleeName(x) == "builtin:len"
	case *ssa.Parameter:
		return false
	}
	return false
}

func isSortCallback(fn *ssa.Function) bool {
	p := fn.Parent()
	if p == nil {
		return false
	}
	found := false
	eachInstr(p, func(in ssa.Instruction) {
		if c, ok := in.(*ssa.Call); ok && (calleeName(c) == "sort.Slice" || calleeName(c) == "sort.SliceStable") {
			if mc, ok := c.Call.Args[1].(*ssa.MakeClosure); ok && mc.Fn == ssa.Value(fn) {
				found = true
			}
		}
	})
	return found
}

// containsFact: block b is dominated by strings.Contains(s', sep) == true where s' is s or s is derived from s' by
// trimming/slicing a prefix that cannot contain sep, or s is a Sprintf whose constant format contains sep.
func containsFact(w *World, b *ssa.BasicBlock, s ssa.Value, sep string, idx int) bool {
	if c, ok := s.(*ssa.Call); ok && calleeName(c) == "fmt.Sprintf" {
		if f, ok := constString(c.Call.Args[0]); ok && strings.Count(f, sep) >= idx {
			return true
		}
	}
	// the same text written as a concatenation: the constant pieces hold the separator
	if n := concatConstCount(s, sep, 0); n >= idx && n > 0 {
		return true
	}
	for _, f := range factsAt(b) {
		if f.Op != token.ILLEGAL || !f.Truth {
			continue
		}
		c, ok := f.X.(*ssa.Call)
		if !ok || calleeName(c) != "strings.Contains" {
			continue
		}
		if sp, ok := constString(c.Call.Args[1]); !ok || sp != sep {
			continue
		}
		if sameColl(c.Call.Args[0], s) || c.Call.Args[0] == s {
			return true
		}
		// s' = TrimPrefix(TrimPrefix(s, "-"), "-"): s contains sep whenever s' does
		if derivedByTrim(c.Call.Args[0], s) {
			return true
		}
	}
	return false
}

// nonEmptyStringAt: the string value cannot be empty at block b: a non-empty constant, a value compared unequal to ""
// by a dominating test, or a merge of such values (each judged on the edge it arrives by).
func nonEmptyStringAt(v ssa.Value, b *ssa.BasicBlock, depth int) bool {
	if depth > 4 {
		return false
	}
	if s, ok := constString(v); ok {
		return s != ""
	}
	neq := func(facts []Fact) bool {
		for _, f := range facts {
			if f.Y == nil {
				continue
			}
			if s, ok := constString(f.Y); ok && s == "" && f.Op == token.NEQ && f.X == v {
				return true
			}
			if c, ok := lenOf(f.X); ok && c == v {
				if k, ok := constInt(f.Y); ok && ((f.Op == token.GTR && k == 0) || (f.Op == token.NEQ && k == 0) || (f.Op == token.GEQ && k == 1)) {
					return true
				}
			}
		}
		return false
	}
	if neq(factsAt(b)) {
		return true
	}
	if phi, ok := v.(*ssa.Phi); ok {
		for i, e := range phi.Edges {
			pred := phi.Block().Preds[i]
			facts := factsAt(pred)
			if iff, ok := pred.Instrs[len(pred.Instrs)-1].(*ssa.If); ok && pred.Succs[0] != pred.Succs[1] {
				facts = append(facts, condFacts(iff.Cond, pred.Succs[0] == phi.Block(), iff)...)
			}
			if s, ok := constString(e); ok && s != "" {
				continue
			}
			good := false
			for _, f := range facts {
				if f.Y == nil {
					continue
				}
				if s, ok := constString(f.Y); ok && s == "" && f.Op == token.NEQ && f.X == e {
					good = true
				}
			}
			if !good && !nonEmptyStringAt(e, pred, depth+1) {
				return false
			}
		}
		return true
	}
	return false
}

// concatConstCount: how often sep certainly occurs in a string built with +, counting its constant operands only.
func concatConstCount(v ssa.Value, sep string, depth int) int {
	if depth > 8 {
		return 0
	}
	if cs, ok := constString(v); ok {
		return strings.Count(cs, sep)
	}
	if bo, ok := v.(*ssa.BinOp); ok && bo.Op == token.ADD {
		return concatConstCount(bo.X, sep, depth+1) + concatConstCount(bo.Y, sep, depth+1)
	}
	return 0
}

// rotatedBound: phi is the counter of a rotated counting loop - [entry: 0 under `0 < n`, back edge: phi+1 under
// `phi+1 < n`] - returns n (nil otherwise).
func rotatedBound(phi *ssa.Phi) ssa.Value {
	h := phi.Block()
	var bound ssa.Value
	for i, e := range phi.Edges {
		pred := h.Preds[i]
		iff, ok := pred.Instrs[len(pred.Instrs)-1].(*ssa.If)
		if !ok || pred.Succs[0] != h {
			return nil
		}
		bo, ok := iff.Cond.(*ssa.BinOp)
		if !ok || bo.Op != token.LSS {
			return nil
		}
		if h.Dominates(pred) {
			// back edge: phi + 1 < n
			inc, ok := e.(*ssa.BinOp)
			if !ok || inc.Op != token.ADD || inc.X != ssa.Value(phi) || bo.X != ssa.Value(inc) {
				return nil
			}
			if k, ok := constInt(inc.Y); !ok || k != 1 {
				return nil
			}
		} else {
			// entry: 0 < n
			if k, ok := constInt(e); !ok || k != 0 {
				return nil
			}
			if k, ok := constInt(bo.X); !ok || k != 0 {
				return nil
			}
		}
		if bound != nil && bound != bo.Y && !sameVal(bound, bo.Y) {
			return nil
		}
		bound = bo.Y
	}
	return bound
}

func derivedByTrim(trimmed, orig ssa.Value) bool {
	for i := 0; i < 4; i++ {
		if trimmed == orig || sameColl(trimmed, orig) {
			return true
		}
		c, ok := trimmed.(*ssa.Call)
		if !ok || (calleeName(c) != "strings.TrimPrefix" && calleeName(c) != "strings.TrimSuffix") {
			// both may be separate calls of a pure accessor on the same receiver (iterator.Value())
			return sameAccessor(trimmed, orig)
		}
		trimmed = c.Call.Args[0]
	}
	return false
}

// sameAccessor: both are calls of the same pure iterator accessor on the same receiver with no advance possible between
// (checked separately by the typestate: Value() is stable between advances). Accept Value()/Value().
func sameAccessor(a, b ssa.Value) bool {
	ca, ok1 := a.(*ssa.Call)
	cb, ok2 := b.(*ssa.Call)
	if !ok1 || !ok2 {
		return false
	}
	return calleeName(ca) == nIterValue && calleeName(cb) == nIterValue && ca.Call.Args[0] == cb.Call.Args[0]
}

// afterLoopOf: block b is reached only through the exit edge of the loop headed by header.
func afterLoopOf(header, b *ssa.BasicBlock) bool {
	if len(header.Succs) != 2 {
		return false
	}
	var exit *ssa.BasicBlock
	for _, s := range header.Succs {
		inLoop := false
		for _, p := range header.Preds {
			if s.Dominates(p) {
				inLoop = true
			}
		}
		if !inLoop {
			if exit != nil {
				return false
			}
			exit = s
		}
	}
	return exit != nil && len(exit.Preds) == 1 && exit.Dominates(b)
}

func nonEmptyGroupElem(w *World, v ssa.Value, nonEmpty map[*ssa.Global][]bool) bool {
	ld, ok := v.(*ssa.UnOp)
	if !ok || ld.Op != token.MUL {
		return false
	}
	ia, ok := ld.X.(*ssa.IndexAddr)
	if !ok {
		return false
	}
	k, ok := constInt(ia.Index)
	if !ok {
		return false
	}
	rxs := submatchRegexes(w, ia.X, map[ssa.Value]bool{})
	if len(rxs) == 0 {
		return false
	}
	for _, g := range rxs {
		ne := nonEmpty[g]
		if int(k) >= len(ne) || !ne[k] {
			return false
		}
	}
	return true
}

func iteratorIndexWhy(fn *ssa.Function) string {
	return "iterator index: idx < len is tested in the method and idx >= 0 because every Value() is preceded by a Next() (typestate, C03) and PeekNextValue uses idx+1 with idx >= -1"
}

func classifySlice(w *World, fn *ssa.Function, x *ssa.Slice, nonEmpty map[*ssa.Global][]bool) (string, string, string) {
	kind := "slice"
	// array literal sliced whole
	if _, ok := arrayLenOfPtr(x.X.Type()); ok && x.Low == nil && x.High == nil {
		return kind, "G0", "whole fixed-size array"
	}
	if x.Low == nil && x.High == nil {
		return kind, "G0", "full slice expression"
	}
	// constant bounds within a fixed-size array that was just allocated (make([]T, k, n) with constants)
	if n, ok := arrayLenOfPtr(x.X.Type()); ok && x.Max == nil {
		if _, fresh := x.X.(*ssa.Alloc); fresh {
			lo, hi := int64(0), n
			okB := true
			if x.Low != nil {
				lo, okB = constInt(x.Low)
			}
			if x.High != nil && okB {
				hi, okB = constInt(x.High)
			}
			if okB && 0 <= lo && lo <= hi && hi <= n {
				return kind, "G0", "constant bounds within a freshly allocated fixed-size array"
			}
		}
	}
	// x[:0] of a slice or string: 0 <= 0 <= cap holds for every value, nil included
	if x.Max == nil && x.High != nil {
		lowZero := x.Low == nil
		if k, ok := constInt(x.Low); x.Low != nil && ok && k == 0 {
			lowZero = true
		}
		if k, ok := constInt(x.High); ok && k == 0 && lowZero {
			switch x.X.Type().Underlying().(type) {
			case *types.Slice, *types.Basic:
				return kind, "G0", "x[:0]: the empty prefix exists for every slice"
			}
		}
	}
	b := x.Block()
	// x[:len(x)-k]
	if x.Low == nil && x.High != nil {
		if bo, ok := x.High.(*ssa.BinOp); ok && bo.Op == token.SUB {
			if k, ok := constInt(bo.Y); ok {
				if c, ok := lenOf(bo.X); ok && sameColl(c, x.X) && (minLenAt(b, x.X) >= k || nonNegFact(b, x.High)) {
					return kind, "G3", fmt.Sprintf("x[:len(x)-%d] under len(x) >= %d", k, k)
				}
				if c, ok := lenOf(bo.X); ok && sameColl(c, x.X) && k == 1 {
					if ne, why := w.provablyNonEmpty(x.X, nil, 0); ne {
						return kind, "G3", "x[:len(x)-1] of a provably non-empty slice: " + why
					}
				}
			}
		}
	}
	// G11: s[:i] / s[i+len(sep):] where i = strings.Index(s, sep) and i >= 0 is established
	if isIndexOf(x.High, x.X) && x.Low == nil && nonNegFact(b, x.High) {
		return kind, "G11", "s[:i] with i = strings.Index(s, sep) >= 0"
	}
	if x.High == nil && x.Low != nil {
		if bo, ok := x.Low.(*ssa.BinOp); ok && bo.Op == token.ADD && isIndexOf(bo.X, x.X) && nonNegFact(b, bo.X) {
			if k, ok := constInt(bo.Y); ok && k >= 0 && k <= indexSepLen(bo.X) {
				return kind, "G11", "s[i+k:] with i = strings.Index(s, sep) >= 0 and k <= len(sep)"
			}
		}
	}
	// x[k:] with const k under len >= k, or of a non-empty group's runes
	if x.High == nil && x.Low != nil {
		if k, ok := constInt(x.Low); ok && k >= 0 {
			if minLenAt(b, x.X) >= k {
				return kind, "G2", fmt.Sprintf("x[%d:] under len(x) >= %d", k, k)
			}
			if cv, ok := x.X.(*ssa.Convert); ok && typeString(cv.Type()) == "[]rune" && k == 1 && nonEmptyGroupElem(w, cv.X, nonEmpty) {
				return kind, "G6", "runes[1:] of a capture group that cannot be empty"
			}
		}
		// data[idx:] in the iterator
		if strings.HasPrefix(short(fn), "(*sliceiterator.Iterator).") {
			return kind, "G9", iteratorIndexWhy(fn)
		}
	}
	return kind, "", "slice bounds not established"
}

// ------------------------------------------------------------------ termination

func rC19Termination(w *World, r *Report) {
	ru := r.Rule("R19.2", "termination inventory: every loop reachable from the entry points is a range loop, an iterator loop whose every cycle advances the iterator, or a counter loop with a strict bound (an inclusive bound needs hi < MaxInt); recursion only descends the command tree / parent chain", 25)
	roots := c19Roots(w)
	for _, rt := range roots {
		if rt == nil {
			ru.Undecided("anchor", "-", "an entry point was not found")
			return
		}
	}
	reach := w.reachableFrom(roots, cutUserCode)
	for _, fn := range w.Funcs {
		if !reach[fn] {
			continue
		}
		for _, h := range loopHeaders(fn) {
			key := short(fn) + "/loop"
			pos := w.IPos(h.Instrs[len(h.Instrs)-1])
			kind, ok, why := classifyLoop(w, fn, h)
			if ok {
				ru.OK(key+"/"+kind, pos, why)
			} else {
				ru.Bad(key+"/"+kind, pos, why)
			}
		}
	}
	// recursion: cycles in the static call graph among reachable library functions
	for _, fn := range w.Funcs {
		if !reach[fn] {
			continue
		}
		for _, c := range allCalls(fn) {
			if c.Common().StaticCallee() == fn {
				key := short(fn) + "/recursion"
				// structural: the recursive argument is n.Parent or a ChildCommands entry of the parameter
				a := c.Common().Args
				okStruct := false
				for _, v := range a {
					if b, ok := loadOfFieldNamed(v, "Parent"); ok {
						if _, isParam := b.(*ssa.Parameter); isParam {
							okStruct = true
						}
					}
					p := NewProv(w, fn).Slice(v)
					for _, s := range p.Srcs {
						if s.Kind == "field" && s.Field != nil && (s.Field.Name() == "ChildCommands" || s.Field.Name() == "Parent") {
							okStruct = true
						}
					}
				}
				if okStruct {
					ru.OK(key, w.IPos(c), "structural recursion over the command tree (nodes are allocated at registration, Parent chains are finite)")
				} else {
					ru.Bad(key, w.IPos(c), "recursion that does not descend the command tree")
				}
			}
		}
	}
}

func classifyLoop(w *World, fn *ssa.Function, h *ssa.BasicBlock) (kind string, ok bool, why string) {
	// range over slice/string (rangeindex) or map/string (rangeiter)
	if rangeCollectionOfHeader(h) != nil && (h.Comment == "rangeindex.loop") {
		return "range", true, "range over a slice: bounded by its length"
	}
	for _, in := range h.Instrs {
		if _, isNext := in.(*ssa.Next); isNext {
			return "range", true, "range over a map or string: bounded by its size"
		}
	}
	ig := buildIG(fn)
	// iterator loop: every cycle through the header passes iterator.Next() on the same iterator, and the header (or a
	// block in the loop) exits on its false result
	loop := naturalLoop(h)
	var nexts []ssa.Instruction
	for b := range loop {
		for _, in := range b.Instrs {
			if c, ok := in.(*ssa.Call); ok && calleeName(c) == nIterNext {
				nexts = append(nexts, in)
			}
		}
	}
	if len(nexts) > 0 {
		isNext := func(in ssa.Instruction) bool {
			for _, n := range nexts {
				if n == in {
					return true
				}
			}
			return false
		}
		first := h.Instrs[len(h.Instrs)-1]
		if !ig.inCycleAvoiding(first, isNext) {
			// some Next result must control an exit of the loop
			exits := false
			for _, n := range nexts {
				nb := n.Block()
				if iff, ok := nb.Instrs[len(nb.Instrs)-1].(*ssa.If); ok && iff.Cond == n.(ssa.Value) {
					if !loop[nb.Succs[1]] || reachesExitWithoutHeader(nb.Succs[1], h, loop) {
						exits = true
					}
				}
			}
			if exits {
				return "iterator", true, "every cycle advances the argv iterator and the loop is left when it is exhausted (Next is absorbing, C03 R03.6); an extra completion-only entry returns on every path"
			}
			return "iterator", false, "the loop advances the iterator but is not left when it is exhausted"
		}
		// inner counter loops inside the main loop fall through to the counter analysis
	}
	// counter loop: header If compares a phi with a bound
	iff, isIf := h.Instrs[len(h.Instrs)-1].(*ssa.If)
	// parent walk: for p := n.Parent; p != nil; p = p.Parent - the loop form of the structural recursion over the
	// parent chain (nodes are allocated at registration, Parent chains are finite)
	if isIf {
		if bo, ok := iff.Cond.(*ssa.BinOp); ok && bo.Op == token.NEQ && isNilConst(bo.Y) {
			if phi, isPhi := bo.X.(*ssa.Phi); isPhi && phi.Block() == h && isTreePtr(phi.Type()) {
				walk := true
				for i, e := range phi.Edges {
					if h.Dominates(h.Preds[i]) {
						if b, ok := loadOfFieldNamed(e, "Parent"); !ok || b != ssa.Value(phi) {
							walk = false
						}
					}
				}
				if walk {
					return "parent-walk", true, "every cycle moves to the node's Parent and the loop is left at the root (Parent chains are finite)"
				}
			}
		}
	}
	if isIf {
		// rotated counting loop (`for i := range n`): the test at the bottom compares counter+1 with the bound
		if bo, ok := iff.Cond.(*ssa.BinOp); ok && bo.Op == token.LSS {
			if inc, ok := bo.X.(*ssa.BinOp); ok && inc.Op == token.ADD {
				if phi, ok := inc.X.(*ssa.Phi); ok && phi.Block() == h && rotatedBound(phi) != nil && loopInvariant(bo.Y, loop) {
					return "counter", true, "counting loop over 0..n-1 (range over an int): strictly increasing counter with strict upper bound"
				}
			}
		}
	}
	if isIf {
		if bo, ok := iff.Cond.(*ssa.BinOp); ok {
			phi, isPhi := bo.X.(*ssa.Phi)
			if isPhi && phi.Block() == h {
				step := true
				for i, e := range phi.Edges {
					if h.Dominates(h.Preds[i]) {
						b2, ok := e.(*ssa.BinOp)
						k := int64(0)
						if ok {
							k, _ = constInt(b2.Y)
						}
						if !ok || b2.Op != token.ADD || b2.X != ssa.Value(phi) || k < 1 {
							step = false
						}
					}
				}
				boundInv := loopInvariant(bo.Y, loop)
				// a down-counter against a constant lower bound
				if !step && (bo.Op == token.GEQ || bo.Op == token.GTR) {
					if _, isC := constInt(bo.Y); isC {
						down := true
						for i, e := range phi.Edges {
							if h.Dominates(h.Preds[i]) {
								b2, ok := e.(*ssa.BinOp)
								k := int64(0)
								if ok {
									k, _ = constInt(b2.Y)
								}
								if !ok || b2.Op != token.SUB || b2.X != ssa.Value(phi) || k < 1 {
									down = false
								}
							}
						}
						if down {
							return "counter", true, "strictly decreasing counter with a constant lower bound"
						}
					}
				}
				switch {
				case !step:
					return "counter", false, "the counter does not increase on every cycle"
				case !boundInv:
					return "counter", false, "the bound changes inside the loop"
				case bo.Op == token.LSS:
					return "counter", true, "strictly increasing counter with strict upper bound"
				case bo.Op == token.NEQ:
					// j != hi: reached exactly when the counter steps by one from a start below hi
					one := true
					var start ssa.Value
					for i, e := range phi.Edges {
						if h.Dominates(h.Preds[i]) {
							if k, _ := constInt(e.(*ssa.BinOp).Y); k != 1 {
								one = false
							}
						} else if start == nil {
							start = e
						} else if start != e {
							one = false
						}
					}
					below := false
					for _, f := range factsAt(h) {
						if f.Y == nil {
							continue
						}
						if (f.Op == token.LSS || f.Op == token.LEQ) && f.X == start && f.Y == bo.Y || (f.Op == token.GTR || f.Op == token.GEQ) && f.Y == start && f.X == bo.Y {
							below = true
						}
					}
					if one && start != nil && below {
						return "counter", true, "counter stepping by one from a start that is not above the bound it is compared with for inequality"
					}
					return "counter", false, "bound `j != hi` without start <= hi established before the loop (or a step other than one): the counter can pass the bound and the loop never ends"
				case bo.Op == token.LEQ:
					// inclusive: safe only if the bound cannot be MaxInt
					if boundBelowMaxInt(bo.Y) {
						return "counter", true, "inclusive bound that is a small field value (retries / args count)"
					}
					return "counter", false, "inclusive bound `j <= hi` with an unbounded hi: for hi == MaxInt the counter wraps around and the loop never ends"
				}
			}
		}
	}
	// consuming loop: for len(rest) > 0 { …; rest = rest[1:] }: every cycle shortens the slice by one element
	if isIf {
		if bo, ok := iff.Cond.(*ssa.BinOp); ok && (bo.Op == token.GTR || bo.Op == token.NEQ) {
			if consumingLoopCollection(h, bo) != nil {
				return "consuming", true, "every cycle drops the first element of the slice and the loop is left when it is empty"
			}
		}
	}
	return "unknown", false, "loop shape not recognised (cannot show termination)"
}

func reachesExitWithoutHeader(b, h *ssa.BasicBlock, loop map[*ssa.BasicBlock]bool) bool {
	seen := map[*ssa.BasicBlock]bool{}
	stack := []*ssa.BasicBlock{b}
	for len(stack) > 0 {
		x := stack[len(stack)-1]
		stack = stack[:len(stack)-1]
		if seen[x] || x == h {
			continue
		}
		seen[x] = true
		if !loop[x] {
			return true
		}
		stack = append(stack, x.Succs...)
	}
	return false
}

func loopInvariant(v ssa.Value, loop map[*ssa.BasicBlock]bool) bool {
	switch x := v.(type) {
	case *ssa.Const, *ssa.Parameter:
		return true
	case *ssa.UnOp:
		// load of a field: invariant if no store to that field inside the loop
		if fa, ok := x.X.(*ssa.FieldAddr); ok {
			f := fieldOfAddr(fa)
			for b := range loop {
				for _, in := range b.Instrs {
					if _, f2, _, ok := storeField(in); ok && f2 == f {
						return false
					}
				}
			}
			return true
		}
	case *ssa.Call:
		// len / cap of a slice, string or array value that is itself invariant: the value is immutable, so is its length
		if n := calleeName(x); (n == "builtin:len" || n == "builtin:cap") && len(x.Call.Args) == 1 {
			switch x.Call.Args[0].Type().Underlying().(type) {
			case *types.Slice, *types.Basic, *types.Array:
				if loopInvariant(x.Call.Args[0], loop) {
					return true
				}
			}
		}
		return !loop[x.Block()]
	case *ssa.Extract, *ssa.Phi, *ssa.BinOp:
		if in, ok := v.(ssa.Instruction); ok {
			return !loop[in.Block()]
		}
	}
	if in, ok := v.(ssa.Instruction); ok {
		return !loop[in.Block()]
	}
	return true
}

// boundBelowMaxInt: the bound is a configuration field (Retries, MinArgs, MaxArgs) rather than a value parsed from input.
func boundBelowMaxInt(v ssa.Value) bool {
	for _, n := range []string{"Retries", "MinArgs", "MaxArgs"} {
		if _, ok := loadOfFieldNamed(v, n); ok {
			return true
		}
	}
	return false
}

// R19.3
func rC19ParseReturns(w *World, r *Report) {
	ru := r.Rule("R19.3", "every return of Parse has a nil remaining list or a nil error (a failed Parse returns nil remaining with a non-nil error)", 5)
	fn := w.Fn(nParse)
	if fn == nil {
		ru.Undecided("anchor", "-", "Parse not found")
		return
	}
	eachInstr(fn, func(in ssa.Instruction) {
		ret, ok := in.(*ssa.Return)
		if !ok || len(ret.Results) != 2 {
			return
		}
		ru.Check(isNilConst(ret.Results[0]) || isNilConst(ret.Results[1]), "Parse/return", w.IPos(ret), "(nil, err) or (remaining, nil)", "Parse can return a non-nil remaining list together with an error")
	})
}

// R19.4: maps used by the parser are never nil: every programTree literal initialises both tables.
func rC19NilMaps(w *World, r *Report) {
	ru := r.Rule("R19.4", "every programTree literal initialises ChildOptions and ChildCommands (AddChildOption / AddChildCommand / copyOptionsFromParent store into them); the only other writer replaces ChildOptions with a fresh map", 6)
	n := 0
	for _, fn := range w.Funcs {
		eachInstr(fn, func(in ssa.Instruction) {
			a, ok := in.(*ssa.Alloc)
			if !ok || typeString(a.Type()) != "*getoptions.programTree" {
				return
			}
			n++
			stores := map[string]ssa.Value{}
			for _, f2 := range funcsWithAnon(fn) {
				eachInstr(f2, func(i2 ssa.Instruction) {
					if base, f, v, ok := storeField(i2); ok && base == ssa.Value(a) {
						stores[f.Name()] = v
					}
				})
			}
			for _, fld := range []string{"ChildOptions", "ChildCommands"} {
				_, isMake := stores[fld].(*ssa.MakeMap)
				ru.Check(isMake, short(fn)+"/literal/"+fld, w.IPos(a), fld+" initialised with a fresh map", "a command node is created with a nil "+fld+" table: registering into it would panic")
			}
		})
	}
	for _, fld := range []string{"ChildOptions", "ChildCommands"} {
		f := w.Field("getoptions", "programTree", fld)
		for _, u := range w.fieldUses(f) {
			if u.Kind != "write" {
				continue
			}
			st := u.Instr.(*ssa.Store)
			if _, isAlloc := u.Addr.X.(*ssa.Alloc); isAlloc {
				continue
			}
			_, isMake := st.Val.(*ssa.MakeMap)
			ru.Check(isMake, "table-writer/"+short(u.Fn), w.IPos(st), "replaced by a fresh map", "a table is replaced by something that may be nil")
		}
	}
	if n == 0 {
		ru.Undecided("literals", "-", "no programTree literal found")
	}
}

// R19.5 (G8): every option.New call site passes a data pointer of the type asserted for the kind.
func rC19NewSites(w *World, r *Report) {
	ru := r.Rule("R19.5", "G8: at every call site of option.New the kind is a constant and the data argument's static type is the pointer type option.New asserts for that kind (so the assertion cannot panic)", 13)
	_, _, _, assertT, _ := kindTables(w)
	kinds := optionKinds(w)
	for _, fn := range w.Funcs {
		for _, c := range callsTo(fn, "option.New") {
			a := c.Common().Args
			key := "New-site/" + short(fn)
			kc, ok := a[1].(*ssa.Const)
			if !ok || kc.Value == nil {
				ru.Bad(key, w.IPos(c), "kind is not a constant")
				continue
			}
			kname := kinds[kc.Value.String()]
			data := a[2]
			mi, ok := data.(*ssa.MakeInterface)
			if !ok {
				ru.Bad(key, w.IPos(c), "data argument is not a typed pointer (nil or interface value): the assertion in option.New panics")
				continue
			}
			got := typeString(mi.X.Type())
			ru.Check(got == assertT[kname] && got != "", key, w.IPos(c), kname+" with "+got, fmt.Sprintf("kind %s asserts %s but %s is passed", kname, assertT[kname], got))
		}
	}
}

// R19.6 (G9): every Value() on the argv iterator happens after a Next() on it.
func rC19IterAfterNext(w *World, r *Report) {
	ru := r.Rule("R19.6", "G9: every iterator.Value()/IsLast() call is dominated by a Next() call on the same iterator, directly or because the enclosing helper is only called after one (idx >= 0 when the backing slice is indexed)", 8)
	afterNext := func(fn *ssa.Function, it ssa.Value, b *ssa.BasicBlock, in ssa.Instruction) bool {
		for _, c := range callsTo(fn, nIterNext) {
			if c.Common().Args[0] != it {
				continue
			}
			if c.Block() == b {
				for _, x := range b.Instrs {
					if x == c.(ssa.Instruction) {
						return true
					}
					if x == in {
						break
					}
				}
			} else if c.Block().Dominates(b) {
				return true
			}
		}
		return false
	}
	for _, fn := range w.Funcs {
		for _, c := range callsTo(fn, nIterValue) {
			it := c.Common().Args[0]
			key := "Value-call/" + short(fn)
			if afterNext(fn, it, c.Block(), c) {
				ru.OK(key, w.IPos(c), "after Next() in the same function")
				continue
			}
			// helper with an iterator parameter: all call sites must be after a Next
			if p, ok := it.(*ssa.Parameter); ok {
				all, n := true, 0
				for _, caller := range w.Funcs {
					for _, cs := range allCalls(caller) {
						if cs.Common().StaticCallee() != fn {
							continue
						}
						n++
						idx := paramIndex(fn, p)
						if idx < 0 || !afterNext(caller, cs.Common().Args[idx], cs.Block(), cs) {
							all = false
						}
					}
				}
				if all && n > 0 {
					ru.OK(key, w.IPos(c), "helper only called after Next()")
					continue
				}
			}
			ru.Bad(key, w.IPos(c), "Value() can be called before the first Next(): the iterator would index its slice with -1")
		}
	}
}

// nonNegFact: the facts at b establish v >= 0.
func nonNegFact(b *ssa.BasicBlock, v ssa.Value) bool {
	for _, f := range factsAt(b) {
		if f.Y == nil || f.X != v {
			continue
		}
		k, ok := constInt(f.Y)
		if !ok {
			continue
		}
		switch {
		case f.Op == token.GEQ && k >= 0, f.Op == token.GTR && k >= -1, f.Op == token.NEQ && k == -1 && isIndexOf(v, nil):
			return true
		}
	}
	return false
}

// isIndexOf: v is strings.Index(s, sep) (s unconstrained when nil).
func isIndexOf(v, s ssa.Value) bool {
	c, ok := v.(*ssa.Call)
	if !ok || (calleeName(c) != "strings.Index" && calleeName(c) != "strings.IndexByte") {
		return false
	}
	return s == nil || c.Call.Args[0] == s || sameColl(c.Call.Args[0], s)
}

func indexSepLen(v ssa.Value) int64 {
	c, ok := v.(*ssa.Call)
	if !ok {
		return 0
	}
	if calleeName(c) == "strings.IndexByte" {
		return 1
	}
	if sep, ok := constString(c.Call.Args[1]); ok {
		return int64(len(sep))
	}
	return 0
}

// G10: strings.Repeat(s, n) panics for n < 0.
func (w *World) nonNegValue(v ssa.Value, depth int, seen map[ssa.Value]bool) bool {
	if depth > 8 || v == nil {
		return false
	}
	if seen[v] {
		return true
	}
	seen[v] = true
	switch x := v.(type) {
	case *ssa.Const:
		k, ok := constInt(x)
		return ok && k >= 0
	case *ssa.Call:
		n := calleeName(x)
		if n == "builtin:len" || n == "builtin:cap" || n == "unicode/utf8.RuneCountInString" {
			return true
		}
		if n == "builtin:max" {
			// non-negative as soon as one operand is
			for _, a := range x.Call.Args {
				if w.nonNegValue(a, depth+1, map[ssa.Value]bool{}) {
					return true
				}
			}
			return false
		}
		if n == "builtin:min" {
			for _, a := range x.Call.Args {
				if !w.nonNegValue(a, depth+1, seen) {
					return false
				}
			}
			return true
		}
		if callee := x.Call.StaticCallee(); callee != nil && callee.Blocks != nil && w.PkgOfFn(callee) != nil {
			ok := true
			eachInstr(callee, func(in ssa.Instruction) {
				if ret, isRet := in.(*ssa.Return); isRet && len(ret.Results) == 1 && !w.nonNegValue(ret.Results[0], depth+1, seen) {
					ok = false
				}
			})
			return ok
		}
	case *ssa.BinOp:
		switch x.Op {
		case token.ADD, token.MUL:
			return w.nonNegValue(x.X, depth+1, seen) && w.nonNegValue(x.Y, depth+1, seen)
		}
	case *ssa.Phi:
		for _, e := range x.Edges {
			if !w.nonNegValue(e, depth+1, seen) {
				return false
			}
		}
		return true
	case *ssa.UnOp:
		if x.Op != token.MUL {
			return false
		}
		switch a := x.X.(type) {
		case *ssa.Global:
			return shortName(a.String()) == "help.Indentation" // documented as a number of spaces
		case *ssa.Alloc:
			for _, sv := range storesInto(a) {
				if !w.nonNegValue(sv, depth+1, seen) {
					return false
				}
			}
			return true
		case *ssa.FieldAddr:
			// a field of a local struct variable (state gathered in a small struct): every store into that field
			// of the variable - directly, or by copying another local struct of the same type - is non-negative
			if al, ok := a.X.(*ssa.Alloc); ok {
				return w.localFieldNonNeg(al, a.Field, depth+1, seen, map[*ssa.Alloc]bool{})
			}
		case *ssa.FreeVar:
			// captured local: all stores in the enclosing function and its literals
			fn := a.Parent()
			idx := -1
			for i, f := range fn.FreeVars {
				if f == a {
					idx = i
				}
			}
			ok := idx >= 0 && fn.Parent() != nil
			if ok {
				found := false
				eachInstr(fn.Parent(), func(in ssa.Instruction) {
					if mc, isMC := in.(*ssa.MakeClosure); isMC && mc.Fn == ssa.Value(fn) && idx < len(mc.Bindings) {
						if al, isAl := mc.Bindings[idx].(*ssa.Alloc); isAl {
							found = true
							for _, sv := range storesInto(al) {
								if !w.nonNegValue(sv, depth+1, seen) {
									ok = false
								}
							}
						}
					}
				})
				return ok && found
			}
		}
	case *ssa.Parameter:
		fn := x.Parent()
		idx := paramIndex(fn, x)
		n := 0
		ok := true
		for _, caller := range w.Funcs {
			for _, c := range allCalls(caller) {
				if c.Common().StaticCallee() == fn && idx < len(c.Common().Args) {
					n++
					if !w.nonNegValue(c.Common().Args[idx], depth+1, seen) {
						ok = false
					}
				}
			}
		}
		return ok && n > 0
	}
	return false
}

// localFieldNonNeg: field #idx of the local struct variable al only ever holds non-negative values. The variable must
// not escape: its address is used only for field addressing, whole loads and whole stores.
func (w *World) localFieldNonNeg(al *ssa.Alloc, idx int, depth int, seen map[ssa.Value]bool, seenAl map[*ssa.Alloc]bool) bool {
	if seenAl[al] {
		return true
	}
	seenAl[al] = true
	if al.Referrers() == nil {
		return false
	}
	for _, ref := range *al.Referrers() {
		switch x := ref.(type) {
		case *ssa.DebugRef:
		case *ssa.UnOp:
			if x.Op != token.MUL {
				return false
			}
		case *ssa.Store:
			if x.Addr != ssa.Value(al) {
				return false // the address itself is stored somewhere
			}
			switch v := x.Val.(type) {
			case *ssa.UnOp:
				src, ok := v.X.(*ssa.Alloc)
				if !ok || v.Op != token.MUL || !w.localFieldNonNeg(src, idx, depth+1, seen, seenAl) {
					return false
				}
			case *ssa.Const: // zero value
			default:
				return false
			}
		case *ssa.FieldAddr:
			if x.Field != idx {
				continue
			}
			if x.Referrers() == nil {
				continue
			}
			for _, r2 := range *x.Referrers() {
				switch y := r2.(type) {
				case *ssa.Store:
					if y.Addr != ssa.Value(x) || !w.nonNegValue(y.Val, depth+1, seen) {
						return false
					}
				case *ssa.UnOp:
					if y.Op != token.MUL {
						return false
					}
				case *ssa.DebugRef:
				default:
					return false
				}
			}
		default:
			return false
		}
	}
	return true
}

// R19.8
func rC19Repeat(w *World, r *Report) {
	ru := r.Rule("R19.8", "G10: every strings.Repeat count reachable from the entry points is provably non-negative (constants, lengths, sums and products of those, the Indentation setting); a difference of lengths is not", 4)
	roots := c19Roots(w)
	for _, rt := range roots {
		if rt == nil {
			ru.Undecided("anchor", "-", "an entry point was not found")
			return
		}
	}
	reach := w.reachableFrom(roots, cutUserCode)
	for _, fn := range w.Funcs {
		if !reach[fn] {
			continue
		}
		for _, c := range callsTo(fn, "strings.Repeat") {
			ok := w.nonNegValue(c.Common().Args[1], 0, map[ssa.Value]bool{})
			ru.Check(ok, "Repeat-count/"+short(fn), w.IPos(c), "count is a sum / product of lengths and non-negative constants", "the count handed to strings.Repeat can be negative (e.g. a width minus a length measured in another unit): Repeat panics")
		}
	}
}

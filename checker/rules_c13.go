package main

// C13 - DAG: a task starts only after all its dependencies finished successfully.

import (
	"fmt"
	"go/constant"
	"go/token"
	"go/types"
	"strings"

	"golang.org/x/tools/go/ssa"
)

const (
	nRun       = "(*dag.Graph).Run"
	nGetNext   = "(*dag.Graph).getNextVertex"
	nSkipPar   = "dag.skipParents"
	nDynTaskFn = "dyn:getoptions.CommandFn"
)

func init() {
	register("C13", "other", []string{
		"decides: Vertex.status is confined to the scheduler goroutine (never touched by a launched goroutine); the readiness predicate, evaluated exhaustively over the four status values, offers a vertex only when it is pending/skip and no child is pending or in progress; the offered vertex is marked in progress before the next offer; one Task.Fn call site inside a bounded retry loop that stops at the first nil; every launched goroutine sends exactly one completion carrying the last error; runDone is stored only on receipt of a completion",
		"visibility of a dependency's writes follows from the Go memory model (send happens-before receive, go statement happens-before the goroutine) - trusted; Retries < 0 is not decided",
	}, rC13Ownership, rC13Readiness, rC13MarkInProgress, rC13RetryLoop, rC13Completion, func(w *World, r *Report) {
		subRule(w, r, rC14Completion, "R13.6", "a dependency that did not return nil never lets its dependents start: every non-nil completion is recorded (which closes the launch gate) or marks the dependents skipped (same obligations as C14 R14.2)", 5)
	}, func(w *World, r *Report) {
		subRule(w, r, rC14Gate, "R13.7", "the launch gate itself (same obligations as C14 R14.1)", 4)
	}, func(w *World, r *Report) {
		subRule(w, r, rC16Edges, "R13.8", "every declared dependency is recorded (and mirrored): the readiness predicate sees all of them (same obligations as C16 R16.6)", 2)
	})
}

// goTargets returns the functions started by `go` in fn, and everything literally nested in them.
func goTargets(fn *ssa.Function) []*ssa.Function {
	var out []*ssa.Function
	for _, f := range funcsWithAnon(fn) {
		eachInstr(f, func(in ssa.Instruction) {
			g, ok := in.(*ssa.Go)
			if !ok {
				return
			}
			switch v := g.Call.Value.(type) {
			case *ssa.Function:
				out = append(out, funcsWithAnon(v)...)
			case *ssa.MakeClosure:
				if t, ok := v.Fn.(*ssa.Function); ok {
					out = append(out, funcsWithAnon(t)...)
				}
			}
		})
	}
	return out
}

func rC13Ownership(w *World, r *Report) {
	ru := r.Rule("R13.1", "Vertex.status is written only by addTask (initial literal), the top-level body of Run and skipParents, read only by getNextVertex and Run; no function started with `go` (or nested in one, or called from one) touches it", 6)
	f := w.Field("dag", "Vertex", "status")
	run := w.Fn(nRun)
	if f == nil || run == nil {
		ru.Undecided("anchor", "-", "Vertex.status / Run not found")
		return
	}
	inGo := map[*ssa.Function]bool{}
	for _, g := range goTargets(run) {
		inGo[g] = true
	}
	// functions statically called from go targets
	for g := range inGo {
		for _, c := range allCalls(g) {
			if callee := c.Common().StaticCallee(); callee != nil && w.PkgOfFn(callee) != nil {
				inGo[callee] = true
			}
		}
	}
	writers := map[string]bool{"(*dag.Graph).addTask": true, nRun: true, nSkipPar: true}
	readers := map[string]bool{nGetNext: true, nRun: true}
	// pure helpers that only the scheduler-side readers call are scheduler-side readers too
	for _, fn := range w.Funcs {
		if fn.Pkg != nil && shortName(fn.Pkg.Pkg.Path()) == "dag" && !inGo[fn] && w.isPure(fn) && onlyCalledFrom(w, fn, readers) {
			readers[short(fn)] = true
		}
	}
	for _, u := range w.fieldUses(f) {
		n := short(u.Fn)
		key := u.Kind + "/" + n
		switch {
		case inGo[u.Fn]:
			ru.Bad(key, w.IPos(u.Instr), "the run status is accessed from a task goroutine: data race with the scheduler, a dependent could be started early")
		case u.Kind == "write" && writers[n], u.Kind == "read" && readers[n]:
			ru.OK(key, w.IPos(u.Instr), "scheduler-side access")
		default:
			ru.Bad(key, w.IPos(u.Instr), "unexpected "+u.Kind+" of Vertex.status in "+n)
		}
	}
	// skipParents is called only from Run's top level and itself
	for _, fn := range w.Funcs {
		for _, c := range callsTo(fn, nSkipPar) {
			n := short(fn)
			ru.Check(n == nRun || n == nSkipPar, "skipParents-caller/"+n, w.IPos(c), "scheduler-side call", "skipParents called outside the scheduler")
		}
	}
}

type readiness struct {
	offers int
}

func rC13Readiness(w *World, r *Report) {
	ru := r.Rule("R13.2", "finite evaluation of getNextVertex: a vertex is offered (ok == true) only when its own status is pending or skip and, when it has children, the all-children flag is clear; per child status the flag is set for pending and in-progress children and never reset", 4)
	fn := w.Fn(nGetNext)
	if fn == nil {
		ru.Undecided("anchor", "-", "getNextVertex not found")
		return
	}
	st := enumConsts(w, "dag", "runStatus")
	if len(st) != 4 {
		ru.Undecided("status-enum", "-", fmt.Sprintf("%d runStatus constants, expected 4", len(st)))
		return
	}
	// no store to status here
	eachInstr(fn, func(in ssa.Instruction) {
		if _, f, _, ok := storeField(in); ok && f.Name() == "status" {
			ru.Bad("pure", w.IPos(in), "getNextVertex modifies a status")
		}
	})
	// offers: returns whose third result is not the constant false
	var offers []*ssa.Return
	eachInstr(fn, func(in ssa.Instruction) {
		if ret, ok := in.(*ssa.Return); ok && len(ret.Results) == 3 {
			if c, ok := ret.Results[2].(*ssa.Const); !ok || c.Value == nil || c.Value.String() != "false" {
				offers = append(offers, ret)
			}
		}
	})
	if len(offers) == 0 {
		ru.Bad("offers", w.Pos(fn.Pos()), "no path offers a vertex")
		return
	}
	for _, ret := range offers {
		key := "offer"
		v := ret.Results[0]
		// the offered vertex is the element of an enclosing range over g.Vertices
		var hdr *ssa.BasicBlock
		for _, h := range loopHeaders(fn) {
			if rangeElem(h) == v && h.Dominates(ret.Block()) {
				hdr = h
			}
		}
		if hdr == nil {
			ru.Bad(key+"/vertex", w.IPos(ret), "the offered vertex is not the element of the scan over the vertex table")
			continue
		}
		// (1) own status
		var okFor []string
		for name, val := range st {
			reached := false
			pe := &pathExplorer{assume: assumeFieldOf(v, "status", val, nil), stopBlock: func(b *ssa.BasicBlock) bool { return b == hdr },
				onReturn: func(r2 *ssa.Return, _ boolEnv) {
					if r2 == ret {
						reached = true
					}
				}}
			pe.startEdge(hdr, 0, boolEnv{})
			if reached {
				okFor = append(okFor, name)
			}
		}
		set := map[string]bool{}
		for _, n := range okFor {
			set[n] = true
		}
		if len(okFor) > 0 && !set["runInProgress"] && !set["runDone"] {
			ru.OK(key+"/own-status", w.IPos(ret), "reachable only for own status in "+strings.Join(sortedKeys(set), ", "))
		} else {
			ru.Bad(key+"/own-status", w.IPos(ret), "a vertex can be offered while its own status is "+strings.Join(sortedKeys(set), ", ")+": a task could be started twice")
		}
		// (2) children
		noChildren := false
		for _, f := range factsAt(ret.Block()) {
			if c, ok := f.X.(*ssa.Call); ok && f.Y != nil && calleeName(c) == "builtin:len" {
				if b, ok := loadOfFieldNamed(c.Call.Args[0], "Children"); ok && b == v {
					if k, ok := constInt(f.Y); ok && k == 0 && f.Op == token.EQL {
						noChildren = true
					}
				}
			}
		}
		if noChildren {
			ru.OK(key+"/children", w.IPos(ret), "offered because it has no dependencies")
			continue
		}
		// find the child loop (range over v.Children) dominating the return and the flag tested afterwards
		var ch *ssa.BasicBlock
		for _, h := range loopHeaders(fn) {
			if coll := rangeCollectionOfHeader(h); coll != nil && h.Dominates(ret.Block()) {
				if b, ok := loadOfFieldNamed(coll, "Children"); ok && b == v {
					ch = h
				}
			}
		}
		if ch == nil {
			// helper form: the offer is dominated by `h(v) == false` where h scans v.Children
			if ok, why, pos := childHelperBlocks(w, ret, v, st); why != "" {
				if ok {
					ru.OK(key+"/children/helper", pos, why)
				} else {
					ru.Bad(key+"/children/helper", pos, why)
				}
				continue
			}
			ru.Bad(key+"/children", w.IPos(ret), "a vertex with dependencies is offered without its children being scanned")
			continue
		}
		var flag *ssa.Phi
		for _, f := range factsAt(ret.Block()) {
			if f.Op == token.ILLEGAL && !f.Truth {
				if phi, ok := f.X.(*ssa.Phi); ok && phi.Block() == ch {
					flag = phi
				}
			}
		}
		if flag == nil {
			// no flag (e.g. the scan leaves for the next vertex directly): decide the meaning instead of the shape -
			// with the child of the current iteration pending or in progress, the offer of this vertex is unreachable
			// before the scan moves on to the next vertex, and the scan itself does move on
			ig := buildIG(fn)
			child := rangeElem(ch)
			var loads []ssa.Value
			eachInstr(fn, func(in ssa.Instruction) {
				if u, ok := in.(*ssa.UnOp); ok && u.Op == token.MUL {
					if b, ok := loadOfFieldNamed(u, "status"); ok && b == child {
						loads = append(loads, u)
					}
				}
			})
			if child == nil || len(loads) == 0 {
				ru.Bad(key+"/children", w.IPos(ret), "the offer is not conditioned on the scan over the children (no read of a child's status)")
				continue
			}
			outerFirst := ssa.Instruction(hdr.Instrs[0])
			for _, name := range []string{"runPending", "runInProgress", "runDone", "runSkip"} {
				init := triEnv{}
				for _, l := range loads {
					init[l] = vsVal{c: constant.MakeInt64(st[name])}
				}
				reached, ok := ig.reachVSInit(ig.edgeStart(ch, 0), func(in ssa.Instruction) bool { return in == outerFirst }, nil, init)
				k2 := fmt.Sprintf("%s/children/child=%s", key, name)
				if !ok {
					ru.Undecided(k2, w.IPos(ret), "state budget exhausted")
					continue
				}
				blocking := name == "runPending" || name == "runInProgress"
				switch {
				case blocking && reached[ig.idx[ret]]:
					ru.Bad(k2, w.IPos(ret), "with a child that is "+name+" the vertex can still be offered: the parent could start before this dependency finished")
				case blocking:
					ru.OK(k2, w.IPos(ret), "a "+name+" child makes the offer of this vertex unreachable")
				case !reached[ig.idx[ret]] && !reached[ig.first[ch]]:
					ru.Bad(k2, w.IPos(ret), "a child that is "+name+" neither lets the scan continue nor the vertex be offered")
				default:
					ru.OK(k2, w.IPos(ret), "a "+name+" child does not block")
				}
			}
			continue
		}
		// flag starts false
		initOK := false
		for i, p := range ch.Preds {
			if !ch.Dominates(p) {
				if c, ok := flag.Edges[i].(*ssa.Const); ok && c.Value != nil && c.Value.String() == "false" {
					initOK = true
				}
			}
		}
		if !initOK {
			ru.Bad(key+"/children/flag-init", w.IPos(flag), "the children flag is not initialised to false")
		}
		child := rangeElem(ch)
		for name, val := range st {
			for _, in0 := range []int8{1, 2} {
				outs := map[int8]bool{}
				pe := &pathExplorer{assume: assumeFieldOf(child, "status", val, nil), stopBlock: func(b *ssa.BasicBlock) bool { return b == ch },
					onArrive: func(_, _ *ssa.BasicBlock, _ int, env boolEnv) { outs[env[flag]] = true }}
				pe.startEdge(ch, 0, boolEnv{flag: in0})
				mustSet := name == "runPending" || name == "runInProgress"
				k2 := fmt.Sprintf("%s/children/child=%s,flag=%v", key, name, in0 == 2)
				switch {
				case len(outs) == 0:
					ru.Bad(k2, w.IPos(flag), "the scan does not continue with the next child (early exit not understood)")
				case mustSet && (outs[1] || outs[0]):
					ru.Bad(k2, w.IPos(flag), "a child that is "+name+" does not set the blocking flag: the parent could start before this dependency finished")
				case in0 == 2 && (outs[1] || outs[0]):
					ru.Bad(k2, w.IPos(flag), "the blocking flag can be reset by a later child ("+name+")")
				default:
					ru.OK(k2, w.IPos(flag), "flag out = "+fmt.Sprint(outs[2]))
				}
			}
		}
	}
}

func rC13MarkInProgress(w *World, r *Report) {
	ru := r.Rule("R13.3", "in Run every path from an accepted offer (ok == true) back to the loop head stores status = runInProgress on the offered vertex, so the readiness predicate can never offer it again", 1)
	run := w.Fn(nRun)
	if run == nil {
		ru.Undecided("anchor", "-", "Run not found")
		return
	}
	st := enumConsts(w, "dag", "runStatus")
	var call *ssa.Call
	for _, c := range callsTo(run, nGetNext) {
		call = c.(*ssa.Call)
	}
	if call == nil {
		ru.Undecided("getNextVertex-call", w.Pos(run.Pos()), "not found")
		return
	}
	var v, ok3 ssa.Value
	for _, ref := range *call.Referrers() {
		if ex, isEx := ref.(*ssa.Extract); isEx {
			switch ex.Index {
			case 0:
				v = ex
			case 2:
				ok3 = ex
			}
		}
	}
	ig := buildIG(run)
	var okIf *ssa.If
	for _, b := range run.Blocks {
		if iff, isIf := b.Instrs[len(b.Instrs)-1].(*ssa.If); isIf && iff.Cond == ok3 {
			okIf = iff
		}
	}
	if okIf == nil || v == nil {
		ru.Bad("ok-test", w.IPos(call), "the ok result of getNextVertex is not tested")
		return
	}
	isMark := func(in ssa.Instruction) bool {
		base, f, val, ok := storeField(in)
		if !ok || f.Name() != "status" || base != v {
			return false
		}
		k, ok := constInt(val)
		return ok && k == st["runInProgress"]
	}
	isHead := func(in ssa.Instruction) bool { return in == ssa.Instruction(call) }
	good, wit := ig.mustPass(ig.edgeStart(okIf.Block(), 0), isMark, func(in ssa.Instruction) bool {
		if isHead(in) {
			return true
		}
		_, isRet := in.(*ssa.Return)
		return isRet
	})
	if good {
		ru.OK("accepted-offer/marked", w.IPos(okIf), "status = runInProgress on every path before the next offer")
	} else {
		ru.Bad("accepted-offer/marked", w.IPos(wit), "an offered vertex can reach the next scheduling round without being marked in progress: it would be launched again")
	}
}

// taskFnCall finds the call of v.Task.Fn in the dag package.
func taskFnCalls(w *World) []ssa.CallInstruction {
	var out []ssa.CallInstruction
	for _, fn := range w.Funcs {
		if fn.Pkg == nil || shortName(fn.Pkg.Pkg.Path()) != "dag" {
			continue
		}
		for _, c := range allCalls(fn) {
			if calleeName(c) == nDynTaskFn {
				out = append(out, c)
			}
		}
	}
	return out
}

func rC13RetryLoop(w *World, r *Report) {
	ru := r.Rule("R13.4", "one call site of Task.Fn, inside a goroutine launched by Run, inside a counter loop i = 0; i <= Retries; i++ that is left as soon as the call returns nil", 3)
	run := w.Fn(nRun)
	calls := taskFnCalls(w)
	if run == nil || len(calls) != 1 {
		ru.Bad("call-sites", "-", fmt.Sprintf("%d Task.Fn call sites in package dag, expected exactly one", len(calls)))
		return
	}
	c := calls[0].(*ssa.Call)
	fn := c.Parent()
	isGo := false
	for _, g := range goTargets(run) {
		if g == fn {
			isGo = true
		}
	}
	ru.Check(isGo, "call/in-goroutine", w.IPos(c), "called in a goroutine launched by Run", "the task function is called on the scheduler goroutine")
	// callee is v.Task.Fn of the vertex parameter
	okCallee := false
	if b, ok := loadOfFieldNamed(c.Call.Value, "Fn"); ok {
		if b2, ok := loadOfFieldNamed(b, "Task"); ok {
			_, okCallee = b2.(*ssa.Parameter)
		}
	}
	ru.Check(okCallee, "call/callee", w.IPos(c), "v.Task.Fn of the launched vertex", "the function called is not the launched vertex's task")
	// loop
	var hdr *ssa.BasicBlock
	for _, h := range loopHeaders(fn) {
		if h.Dominates(c.Block()) && naturalLoop(h)[c.Block()] {
			hdr = h
		}
	}
	if hdr == nil {
		ru.Bad("retry-loop", w.IPos(c), "the call is not inside the retry loop")
		return
	}
	iff, _ := hdr.Instrs[len(hdr.Instrs)-1].(*ssa.If)
	var problems []string
	okBound := false
	if iff != nil {
		if bo, ok := iff.Cond.(*ssa.BinOp); ok {
			phi, isPhi := bo.X.(*ssa.Phi)
			_, isRetries := loadOfFieldNamed(bo.Y, "Retries")
			if isPhi && isRetries && bo.Op == token.LEQ && phi.Block() == hdr {
				okBound = true
				for i, e := range phi.Edges {
					if hdr.Dominates(hdr.Preds[i]) {
						b2, ok := e.(*ssa.BinOp)
						k := int64(0)
						if ok {
							k, _ = constInt(b2.Y)
						}
						if !ok || b2.Op != token.ADD || b2.X != ssa.Value(phi) || k != 1 {
							problems = append(problems, "the attempt counter is not incremented by one")
						}
					} else if k, ok := constInt(e); !ok || k != 0 {
						problems = append(problems, "the attempt counter does not start at 0")
					}
				}
			}
		}
	}
	if !okBound {
		problems = append(problems, "the loop bound is not i <= v.Retries (at most Retries+1 attempts)")
	}
	// leave at first nil: from the err == nil edge the call is unreachable
	ig := buildIG(fn)
	foundNilTest := false
	for _, b := range fn.Blocks {
		if t, ok := b.Instrs[len(b.Instrs)-1].(*ssa.If); ok {
			for k := 0; k < 2; k++ {
				for _, f := range condFacts(t.Cond, k == 0, t) {
					if f.Op == token.EQL && f.Y != nil && isNilConst(f.Y) && f.X == ssa.Value(c) {
						// an edge that contradicts a dominating err != nil fact is infeasible
						contra := false
						for _, d := range factsAt(b) {
							if d.Op == token.NEQ && d.Y != nil && isNilConst(d.Y) && d.X == ssa.Value(c) {
								contra = true
							}
						}
						if contra {
							continue
						}
						foundNilTest = true
						seen := ig.reachFrom(ig.edgeStart(b, k), nil)
						if seen[ig.idx[c]] {
							problems = append(problems, "after a nil result the task can be called again")
						}
					}
				}
			}
		}
	}
	if !foundNilTest {
		problems = append(problems, "the result is never tested for nil inside the loop")
	}
	// exactly one call per iteration
	if ig.inCycleAvoiding(c, func(in ssa.Instruction) bool { return in.Block() == hdr }) {
		problems = append(problems, "the call sits in an inner cycle")
	}
	if len(problems) == 0 {
		ru.OK("retry-loop", w.IPos(c), "for i := 0; i <= Retries; i++ { err = Fn(); if err == nil { break } }")
	} else {
		ru.Bad("retry-loop", w.IPos(c), strings.Join(problems, "; "))
	}
}

// doneSends: sends on a channel parameter named done (type chan IDErr) in fn.
// isCompletionChan: a channel of completion messages - a struct carrying a vertex ID and an error (whatever the
// struct is called and wherever it is declared).
func isCompletionChan(t types.Type) bool {
	ch, ok := t.Underlying().(*types.Chan)
	if !ok {
		return false
	}
	st, ok := ch.Elem().Underlying().(*types.Struct)
	if !ok {
		return false
	}
	hasID, hasErr := false, false
	for i := 0; i < st.NumFields(); i++ {
		switch typeString(st.Field(i).Type()) {
		case "dag.ID":
			hasID = true
		case "error":
			hasErr = true
		}
	}
	return hasID && hasErr
}

func doneSends(fn *ssa.Function) []*ssa.Send {
	var out []*ssa.Send
	eachInstr(fn, func(in ssa.Instruction) {
		if s, ok := in.(*ssa.Send); ok && isCompletionChan(s.Chan.Type()) {
			out = append(out, s)
		}
	})
	return out
}

func rC13Completion(w *World, r *Report) {
	ru := r.Rule("R13.5", "every goroutine launched by Run sends exactly one completion message on every path to its exit, carrying the launched vertex's ID and, for the task goroutine, the result of the last attempt; runDone is stored only when such a message is received, on the vertex it names", 4)
	run := w.Fn(nRun)
	if run == nil {
		ru.Undecided("anchor", "-", "Run not found")
		return
	}
	st := enumConsts(w, "dag", "runStatus")
	launched := map[*ssa.Function]bool{}
	eachInstr(run, func(in ssa.Instruction) {
		if g, ok := in.(*ssa.Go); ok {
			switch v := g.Call.Value.(type) {
			case *ssa.Function:
				launched[v] = true
			case *ssa.MakeClosure:
				if t, ok := v.Fn.(*ssa.Function); ok {
					launched[t] = true
				}
			}
		}
	})
	if len(launched) == 0 {
		ru.Bad("goroutines", w.Pos(run.Pos()), "Run launches no goroutine")
	}
	for fn := range launched {
		key := "goroutine/" + short(fn)
		sends := doneSends(fn)
		ig := buildIG(fn)
		var problems []string
		isSend := func(in ssa.Instruction) bool {
			_, ok := in.(*ssa.Send)
			return ok && isCompletionChan(in.(*ssa.Send).Chan.Type())
		}
		isExit := func(in ssa.Instruction) bool {
			switch in.(type) {
			case *ssa.Return, *ssa.Panic:
				// the synthetic recover block is not a normal exit
				return in.Block().Comment != "recover"
			}
			return false
		}
		if ok, wit := ig.mustPass([]int{0}, isSend, isExit); !ok {
			problems = append(problems, "a path reaches the exit at "+w.IPos(wit)+" without reporting completion: the scheduler would wait forever")
		}
		for _, s := range sends {
			seen := ig.reachFrom(ig.after(s), nil)
			for _, s2 := range sends {
				if seen[ig.idx[s2]] {
					problems = append(problems, "two completion messages can be sent by one goroutine")
				}
			}
			// payload: ID = v.ID of the vertex parameter; Error
			els := map[string]ssa.Value{}
			if ld, ok := s.X.(*ssa.UnOp); ok {
				if a, ok := ld.X.(*ssa.Alloc); ok {
					eachInstr(fn, func(in ssa.Instruction) {
						if base, f, v, ok := storeField(in); ok && base == ssa.Value(a) {
							els[f.Name()] = v
						}
					})
				}
			}
			if b, ok := loadOfFieldNamed(els["ID"], "ID"); !ok {
				problems = append(problems, "the message does not carry the vertex ID")
			} else if _, isParam := b.(*ssa.Parameter); !isParam {
				problems = append(problems, "the message carries another vertex's ID")
			}
			// for the task goroutine: Error = phi of the call result(s)
			calls := taskFnCalls(w)
			if len(calls) == 1 && calls[0].Parent() == fn {
				okErr := els["Error"] != nil
				sawCall := false
				for _, leaf := range phiLeaves(els["Error"], map[ssa.Value]bool{}) {
					switch {
					case leaf == calls[0].Value():
						sawCall = true
					case isNilConst(leaf):
					default:
						okErr = false
					}
				}
				if !okErr || !sawCall {
					problems = append(problems, "the error reported is not exactly the result of the last attempt")
				}
			}
		}
		if len(problems) == 0 {
			ru.OK(key, w.Pos(fn.Pos()), "exactly one completion message on every path")
		} else {
			ru.Bad(key, w.Pos(fn.Pos()), strings.Join(problems, "; "))
		}
	}
	// runDone stores
	n := 0
	for _, fn := range w.Funcs {
		eachInstr(fn, func(in ssa.Instruction) {
			base, f, val, ok := storeField(in)
			if !ok || f.Name() != "status" {
				return
			}
			if k, ok := constInt(val); !ok || k != st["runDone"] {
				return
			}
			n++
			good := fn == run
			// base = g.Vertices[msg.ID], block dominated by the receive (select index == 0)
			if lk, ok := base.(*ssa.Lookup); ok {
				if _, ok := loadOfFieldNamed(lk.X, "Vertices"); !ok {
					good = false
				}
				p := NewProv(w, fn).Slice(lk.Index)
				fromSelect := false
				for _, s := range p.Srcs {
					if strings.Contains(s.Name, "select") {
						fromSelect = true
					}
				}
				_ = fromSelect
			} else {
				good = false
			}
			recv := false
			for _, fct := range factsAt(in.Block()) {
				if fct.Op == token.EQL && fct.Y != nil {
					if ex, ok := fct.X.(*ssa.Extract); ok && ex.Index == 0 {
						if sel, ok := ex.Tuple.(*ssa.Select); ok && len(sel.States) > 0 && sel.States[0].Dir == 2 {
							recv = true
						}
					}
				}
			}
			ru.Check(good && recv, "runDone-store", w.IPos(in), "stored on receipt of a completion, on the vertex named by the message", "a vertex is marked done without a completion message for it having been received")
		})
	}
	if n == 0 {
		ru.Bad("runDone-store", w.Pos(run.Pos()), "no vertex is ever marked done")
	}
}

// phiLeaves returns the non-phi values merged into v.
func phiLeaves(v ssa.Value, seen map[ssa.Value]bool) []ssa.Value {
	if v == nil || seen[v] {
		return nil
	}
	seen[v] = true
	if phi, ok := v.(*ssa.Phi); ok {
		var out []ssa.Value
		for _, e := range phi.Edges {
			out = append(out, phiLeaves(e, seen)...)
		}
		return out
	}
	return []ssa.Value{v}
}

// childHelperBlocks handles the refactored form `if !blocked(v) { offer }`: blocked must be a pure function that ranges
// over v.Children, returns true on every path for a child that is pending or in progress, and false only after the scan.
func childHelperBlocks(w *World, ret *ssa.Return, v ssa.Value, st map[string]int64) (ok bool, why string, pos string) {
	var call *ssa.Call
	for _, f := range factsAt(ret.Block()) {
		if f.Op != token.ILLEGAL || f.Truth {
			continue
		}
		c, isCall := f.X.(*ssa.Call)
		if !isCall {
			continue
		}
		callee := c.Call.StaticCallee()
		if callee == nil || callee.Blocks == nil || w.PkgOfFn(callee) == nil || len(c.Call.Args) != 1 || c.Call.Args[0] != v {
			continue
		}
		call = c
	}
	if call == nil {
		return false, "", ""
	}
	h := call.Call.StaticCallee()
	pos = w.Pos(h.Pos())
	if !w.isPure(h) {
		return false, "the helper deciding readiness has side effects", pos
	}
	var hdr *ssa.BasicBlock
	for _, lh := range loopHeaders(h) {
		if coll := rangeCollectionOfHeader(lh); coll != nil {
			if b, isF := loadOfFieldNamed(coll, "Children"); isF && b == ssa.Value(h.Params[0]) {
				hdr = lh
			}
		}
	}
	if hdr == nil {
		return false, "the helper deciding readiness does not scan the vertex's children", pos
	}
	child := rangeElem(hdr)
	for name, val := range st {
		sawTrue, sawOther := false, false
		pe := &pathExplorer{assume: assumeFieldOf(child, "status", val, nil), stopBlock: func(b *ssa.BasicBlock) bool { return b == hdr },
			onArrive: func(_, _ *ssa.BasicBlock, _ int, _ boolEnv) { sawOther = true },
			onReturn: func(r2 *ssa.Return, env boolEnv) {
				if evalBool(r2.Results[0], env) == 2 {
					sawTrue = true
				} else {
					sawOther = true
				}
			}}
		pe.startEdge(hdr, 0, boolEnv{})
		if (name == "runPending" || name == "runInProgress") && (sawOther || !sawTrue) {
			return false, "a child that is " + name + " does not make the helper report the vertex as blocked: the parent could start before this dependency finished", pos
		}
	}
	// returns reachable without entering the loop body must be false only after the scan: any `return true` outside the loop is conservative, fine
	return true, "readiness helper " + short(h) + ": pending / in-progress children always block", pos
}

package main

// C20 - determinism. E-ORD: order-taint analysis of every map iteration of the library (package dag excluded:
// scheduling order is outside C20) and of everything derived from it, to every observable sink.

import (
	"fmt"
	"go/token"
	"go/types"
	"sort"
	"strings"

	"golang.org/x/tools/go/ssa"
)

func init() {
	register("C20", "proof", []string{
		"proof obligations: (R20.1) every map range and every loop over a slice derived from one has an order-insensitive body and every derived slice only meets allowed sinks (sorted first, len, singleton index, propagation); (R20.2) no go/select and only allow-listed standard library calls are reachable from the entry points; (R20.3) the only unstable sort has unique keys; (R20.4) no pointer/func/chan is formatted",
		"trusted base: gc compiler and standard library are deterministic for the calls on the allow-list; environment and os.Args[0] are inputs; fmt prints maps in sorted key order (Go >= 1.12); package dag's scheduling order is outside C20; the debug Logger is not an observable output",
	}, rC20Order, rC20Sources, rC20SortKeys, rC20Formatting)
}

type ordAnalysis struct {
	w        *World
	ru       *Rule
	doneVal  map[string]bool
	doneLoop map[*ssa.BasicBlock]bool
	nLoops   int
	nVals    int
	fields   map[*types.Var]bool
}

func isLibNonDag(fn *ssa.Function) bool {
	return fn != nil && fn.Pkg != nil && shortName(fn.Pkg.Pkg.Path()) != "dag"
}

func rC20Order(w *World, r *Report) {
	ru := r.Rule("R20.1", "order taint: every `range` over a map (outside package dag) is an unordered loop whose body may only (i) append to a slice that is sorted before any order-sensitive use, (ii) store into maps at locations injective in the loop variables, (iii) perform commutative reductions, (iv) affect only the iteration's own object, (v) leave the loop under an equality guard on the unique key; slices derived from it propagate through appends, parameters, results and fields and only meet len / sort / range / singleton-index sinks", 17)
	oa := &ordAnalysis{w: w, ru: ru, doneVal: map[string]bool{}, doneLoop: map[*ssa.BasicBlock]bool{}, fields: map[*types.Var]bool{}}
	for _, fn := range w.Funcs {
		if !isLibNonDag(fn) {
			continue
		}
		for _, b := range fn.Blocks {
			for _, in := range b.Instrs {
				nx, ok := in.(*ssa.Next)
				if !ok || nx.IsString {
					continue
				}
				rg, ok := nx.Iter.(*ssa.Range)
				if !ok {
					continue
				}
				if _, isMap := rg.X.Type().Underlying().(*types.Map); !isMap {
					continue
				}
				var vars []ssa.Value
				for _, ref := range *nx.Referrers() {
					if ex, ok := ref.(*ssa.Extract); ok && ex.Index >= 1 {
						vars = append(vars, ex)
					}
				}
				oa.loop(fn, b, vars, "map range at "+w.IPos(nx), true)
			}
		}
	}
	r.Note("order analysis: %d unordered loops, %d derived values followed, tainted fields: %v", oa.nLoops, oa.nVals, oa.fieldNames())
}

func (oa *ordAnalysis) fieldNames() []string {
	var out []string
	for f := range oa.fields {
		out = append(out, f.Name())
	}
	sort.Strings(out)
	return out
}

// derivedFrom: v depends on one of the loop variables (through loads, fields, calls).
func derivedFrom(v ssa.Value, vars []ssa.Value, depth int) bool {
	if depth > 8 || v == nil {
		return false
	}
	for _, x := range vars {
		if v == x {
			return true
		}
	}
	switch x := v.(type) {
	case *ssa.UnOp:
		return derivedFrom(x.X, vars, depth+1)
	case *ssa.FieldAddr:
		return derivedFrom(x.X, vars, depth+1)
	case *ssa.Field:
		return derivedFrom(x.X, vars, depth+1)
	case *ssa.IndexAddr:
		return derivedFrom(x.X, vars, depth+1) || derivedFrom(x.Index, vars, depth+1)
	case *ssa.Lookup:
		return derivedFrom(x.X, vars, depth+1) || derivedFrom(x.Index, vars, depth+1)
	case *ssa.Extract:
		return derivedFrom(x.Tuple, vars, depth+1)
	case *ssa.BinOp:
		return derivedFrom(x.X, vars, depth+1) || derivedFrom(x.Y, vars, depth+1)
	case *ssa.Call:
		for _, a := range x.Call.Args {
			if derivedFrom(a, vars, depth+1) {
				return true
			}
		}
	case *ssa.MakeInterface:
		return derivedFrom(x.X, vars, depth+1)
	case *ssa.ChangeType:
		return derivedFrom(x.X, vars, depth+1)
	case *ssa.Convert:
		return derivedFrom(x.X, vars, depth+1)
	case *ssa.Slice:
		return derivedFrom(x.X, vars, depth+1)
	case *ssa.Phi:
		for _, e := range x.Edges {
			if e != v && derivedFrom(e, vars, depth+1) {
				return true
			}
		}
	}
	return false
}

// uniqueKeyOf: v is the loop's key, or the .Name of the loop's value (equal to the key by the registration invariant).
func uniqueKeyOf(v ssa.Value, vars []ssa.Value) bool {
	for _, x := range vars {
		if v == x {
			if ex, ok := x.(*ssa.Extract); ok && ex.Index == 1 {
				return true
			}
		}
		if b, ok := loadOfFieldNamed(v, "Name"); ok && b == x {
			return true
		}
	}
	return false
}

func (oa *ordAnalysis) loop(fn *ssa.Function, h *ssa.BasicBlock, vars []ssa.Value, origin string, isMap bool) {
	if oa.doneLoop[h] {
		return
	}
	oa.doneLoop[h] = true
	oa.nLoops++
	w, ru := oa.w, oa.ru
	key := short(fn) + "/unordered-loop"
	pos := w.IPos(h.Instrs[0])
	loop := naturalLoop(h)
	var problems []string
	// header phis: outer variables carried around the loop
	for _, in := range h.Instrs {
		phi, ok := in.(*ssa.Phi)
		if !ok {
			continue
		}
		if phi.Comment == "rangeindex" {
			continue
		}
		kind, why := oa.classifyCarried(fn, h, phi, vars)
		switch kind {
		case "accumulator":
			oa.value(fn, phi, origin+" → accumulator "+phi.Comment)
		case "ok":
		default:
			problems = append(problems, "variable "+phi.Comment+" carried around the loop: "+why)
		}
	}
	// the position inside an unordered slice carries no meaning: the range counter may only address the element
	if !isMap {
		for _, in := range h.Instrs {
			phi, ok := in.(*ssa.Phi)
			if !ok || phi.Comment != "rangeindex" {
				continue
			}
			for _, ref := range *phi.Referrers() {
				inc, ok := ref.(*ssa.BinOp)
				if !ok {
					continue
				}
				for _, r2 := range *inc.Referrers() {
					switch y := r2.(type) {
					case *ssa.IndexAddr, *ssa.Phi, *ssa.DebugRef:
					case *ssa.BinOp:
						if y.Block() != h {
							problems = append(problems, "the position of an element in the unordered slice is used at "+w.IPos(y))
						}
					default:
						problems = append(problems, "the position of an element in the unordered slice is used at "+w.IPos(r2))
					}
				}
			}
		}
	}
	// instructions of the body
	for b := range loop {
		for _, in := range b.Instrs {
			switch x := in.(type) {
			case *ssa.Store:
				if p := oa.checkStore(fn, h, x, vars, loop); p != "" {
					problems = append(problems, p+" at "+w.IPos(x))
				}
			case *ssa.MapUpdate:
				if p := oa.checkMapUpdate(fn, h, x, vars); p != "" {
					problems = append(problems, p+" at "+w.IPos(x))
				}
			case *ssa.Send, *ssa.Go, *ssa.Defer, *ssa.Select:
				problems = append(problems, "concurrency operation inside an unordered loop at "+w.IPos(in))
			case ssa.CallInstruction:
				if p := oa.checkCall(fn, h, x, vars); p != "" {
					problems = append(problems, p+" at "+w.IPos(in))
				}
			case *ssa.Return:
				if !oa.guardedExit(b, vars, loop) {
					for _, res := range x.Results {
						if _, isConst := res.(*ssa.Const); !isConst || derivedFrom(res, vars, 0) {
							// returning anything order dependent
						}
					}
					problems = append(problems, "return from inside the unordered loop that is not guarded by an equality test on the unique key (which element is met first depends on map order) at "+w.IPos(x))
				}
			}
		}
		// exits other than the header's done edge
		for k, s := range b.Succs {
			if !loop[s] && b != h {
				if !oa.guardedExit(b, vars, loop) && !oa.guardedEdge(b, k, vars) {
					problems = append(problems, "the loop is left early (break / labelled continue) without an equality guard on the unique key at "+w.IPos(b.Instrs[len(b.Instrs)-1]))
				}
			}
		}
	}
	// values defined in the loop and used after it (other than header phis) must be key-determined: only allowed at guarded exits
	for b := range loop {
		for _, in := range b.Instrs {
			v, ok := in.(ssa.Value)
			if !ok || v.Referrers() == nil {
				continue
			}
			for _, ref := range *v.Referrers() {
				rb := ref.Block()
				if rb == nil || loop[rb] {
					continue
				}
				if _, isDbg := ref.(*ssa.DebugRef); isDbg {
					continue
				}
				if phi, isPhi := ref.(*ssa.Phi); isPhi {
					// the edge must come from a guarded exit
					okAll := true
					for i, e := range phi.Edges {
						if e == v && loop[phi.Block().Preds[i]] && phi.Block().Preds[i] != h && !oa.guardedExit(phi.Block().Preds[i], vars, loop) {
							okAll = false
						}
						if e == v && phi.Block().Preds[i] == h {
							okAll = false
						}
					}
					if okAll {
						continue
					}
				}
				if _, isPhi := in.(*ssa.Phi); isPhi && in.Block() == h {
					continue // judged as a carried variable
				}
				if oa.guardedExit(in.Block(), vars, loop) || oa.guardedExit(rb, vars, loop) {
					continue
				}
				problems = append(problems, fmt.Sprintf("a value computed inside the loop (%s) is used after it at %s", describeInstr(in), w.IPos(ref)))
			}
		}
	}
	if len(problems) == 0 {
		ru.OK(key, pos, origin+": body is order-insensitive")
	} else {
		ru.Bad(key, pos, origin+": "+joinLimited(dedupe(problems), 4))
	}
}

func dedupe(ss []string) []string {
	seen := map[string]bool{}
	var out []string
	for _, s := range ss {
		if !seen[s] {
			seen[s] = true
			out = append(out, s)
		}
	}
	return out
}

// classifyCarried classifies a header phi of an unordered loop.
func (oa *ordAnalysis) classifyCarried(fn *ssa.Function, h *ssa.BasicBlock, phi *ssa.Phi, vars []ssa.Value) (string, string) {
	// accumulator: every back edge is the phi itself or an append chain rooted at it
	if _, isSlice := phi.Type().Underlying().(*types.Slice); isSlice {
		for i, e := range phi.Edges {
			if !h.Dominates(h.Preds[i]) {
				continue
			}
			if !appendChainOf(e, phi, map[ssa.Value]bool{}) {
				return "bad", "slice reassigned by something other than append"
			}
		}
		return "accumulator", ""
	}
	// values that do not depend on the loop variables or only on constants: flags / counters
	allConst := true
	for i, e := range phi.Edges {
		if !h.Dominates(h.Preds[i]) || e == ssa.Value(phi) {
			continue
		}
		switch x := e.(type) {
		case *ssa.Const:
		case *ssa.Call:
			// max / min reduction written with the builtins: x = max(x, l)
			isRed := false
			if n := calleeName(x); n == "builtin:max" || n == "builtin:min" {
				for _, a := range x.Call.Args {
					if a == ssa.Value(phi) {
						isRed = true
					}
				}
			}
			if !isRed {
				allConst = false
			}
		case *ssa.BinOp:
			// counter: phi + const
			if _, isC := x.Y.(*ssa.Const); !(x.X == ssa.Value(phi) && isC && (x.Op == token.ADD || x.Op == token.OR)) {
				allConst = false
			}
		case *ssa.Phi:
			// inner merge of the same flag: its leaves must be constants or the phi
			for _, l := range phiLeaves(x, map[ssa.Value]bool{}) {
				if _, isC := l.(*ssa.Const); !isC && l != ssa.Value(phi) {
					if bo, ok := l.(*ssa.BinOp); ok && bo.X == ssa.Value(phi) {
						if _, isC := bo.Y.(*ssa.Const); isC {
							continue
						}
					}
					allConst = false
				}
			}
		default:
			allConst = false
		}
	}
	if allConst {
		return "ok", ""
	}
	// max / min reduction: new value l taken under l > phi (or <)
	red := true
	for i, e := range phi.Edges {
		if !h.Dominates(h.Preds[i]) || e == ssa.Value(phi) {
			continue
		}
		for _, l := range phiLeaves(e, map[ssa.Value]bool{phi: true}) { // the carried value itself is not a new value
			if l == ssa.Value(phi) {
				continue
			}
			// find defining block of the choice: some block in the loop has the fact l > phi dominating the edge source
			okRed := false
			for _, b := range fn.Blocks {
				for _, f := range factsAt(b) {
					if (f.Op == token.GTR || f.Op == token.LSS || f.Op == token.GEQ || f.Op == token.LEQ) && f.Y != nil {
						if (f.X == l && f.Y == ssa.Value(phi)) || (f.Y == l && f.X == ssa.Value(phi)) {
							okRed = true
						}
					}
				}
			}
			if !okRed {
				red = false
			}
		}
	}
	if red {
		return "ok", ""
	}
	return "bad", "assigned a loop-dependent value (the last / first element visited wins: depends on map order)"
}

func appendChainOf(v ssa.Value, root *ssa.Phi, seen map[ssa.Value]bool) bool {
	if v == ssa.Value(root) || seen[v] {
		return true
	}
	seen[v] = true
	switch x := v.(type) {
	case *ssa.Call:
		if calleeName(x) == "builtin:append" {
			return appendChainOf(x.Call.Args[0], root, seen)
		}
	case *ssa.Phi:
		for _, e := range x.Edges {
			if !appendChainOf(e, root, seen) {
				return false
			}
		}
		return true
	}
	return false
}

// guardedExit: block b is dominated by an equality test between the loop's unique key and a loop-invariant value.
func (oa *ordAnalysis) guardedExit(b *ssa.BasicBlock, vars []ssa.Value, loop map[*ssa.BasicBlock]bool) bool {
	for _, f := range factsAt(b) {
		if f.Op != token.EQL || f.Y == nil || !loop[f.If.Block()] {
			continue
		}
		for _, pair := range [][2]ssa.Value{{f.X, f.Y}, {f.Y, f.X}} {
			if uniqueKeyOf(pair[0], vars) && !derivedFrom(pair[1], vars, 0) {
				return true
			}
		}
	}
	return false
}

// guardedEdge: the k-th successor edge of b is taken only when the unique key equals a loop-invariant value.
func (oa *ordAnalysis) guardedEdge(b *ssa.BasicBlock, k int, vars []ssa.Value) bool {
	iff, ok := b.Instrs[len(b.Instrs)-1].(*ssa.If)
	if !ok {
		return false
	}
	for _, f := range condFacts(iff.Cond, k == 0, iff) {
		if f.Op != token.EQL || f.Y == nil {
			continue
		}
		for _, pair := range [][2]ssa.Value{{f.X, f.Y}, {f.Y, f.X}} {
			if uniqueKeyOf(pair[0], vars) && !derivedFrom(pair[1], vars, 0) {
				return true
			}
		}
	}
	return false
}

func (oa *ordAnalysis) checkStore(fn *ssa.Function, h *ssa.BasicBlock, st *ssa.Store, vars []ssa.Value, loop map[*ssa.BasicBlock]bool) string {
	root := rootOfAddr(st.Addr)
	// (iv) rooted at the iteration's own object or at an allocation made inside the loop
	if derivedFrom(root, vars, 0) {
		return ""
	}
	if a, ok := root.(*ssa.Alloc); ok {
		if loop[a.Block()] {
			return ""
		}
		// an outer local (captured or address-taken): reduction or accumulator
		if !derivedFrom(st.Val, vars, 0) {
			if _, isC := st.Val.(*ssa.Const); isC {
				return ""
			}
		}
		// max/min reduction: Store(a, l) under l > load(a)
		for _, f := range factsAt(st.Block()) {
			if (f.Op == token.GTR || f.Op == token.LSS) && f.Y != nil {
				for _, pair := range [][2]ssa.Value{{f.X, f.Y}, {f.Y, f.X}} {
					if pair[0] == st.Val {
						if u, ok := pair[1].(*ssa.UnOp); ok && (u.X == ssa.Value(a) || sameLocalAddr(u.X, st.Addr)) {
							return ""
						}
					}
				}
			}
		}
		// the same reduction written with the builtins: a = max(load a, l)
		if c, ok := st.Val.(*ssa.Call); ok && (calleeName(c) == "builtin:max" || calleeName(c) == "builtin:min") {
			for _, arg := range c.Call.Args {
				if u, ok := arg.(*ssa.UnOp); ok && (u.X == ssa.Value(a) || sameLocalAddr(u.X, st.Addr)) {
					return ""
				}
			}
		}
		// accumulator: a = append(load a, …)
		if c, ok := st.Val.(*ssa.Call); ok && calleeName(c) == "builtin:append" {
			if u, ok := c.Call.Args[0].(*ssa.UnOp); ok && u.X == ssa.Value(a) {
				oa.allocAccumulator(fn, a, "accumulator "+a.Comment)
				return ""
			}
		}
		if oa.guardedExit(st.Block(), vars, loop) {
			return ""
		}
		return "outer variable " + a.Comment + " assigned a loop-dependent value"
	}
	if oa.guardedExit(st.Block(), vars, loop) {
		return ""
	}
	// field of a loop-invariant object
	if derivedFrom(st.Val, vars, 0) {
		return "store of a loop-dependent value into a loop-invariant location " + st.Addr.String()
	}
	return ""
}

// sameLocalAddr: two address expressions denote the same field (chain) of the same local variable.
func sameLocalAddr(a, b ssa.Value) bool {
	if a == b {
		return true
	}
	fa, ok1 := a.(*ssa.FieldAddr)
	fb, ok2 := b.(*ssa.FieldAddr)
	if !ok1 || !ok2 || fa.Field != fb.Field {
		return false
	}
	if fa.X == fb.X {
		_, isAl := fa.X.(*ssa.Alloc)
		return isAl
	}
	return sameLocalAddr(fa.X, fb.X)
}

// allocAccumulator: a local slice variable (address taken) that collected unordered elements: every load of it after
// the loop is a tainted value.
func (oa *ordAnalysis) allocAccumulator(fn *ssa.Function, a *ssa.Alloc, origin string) {
	for _, f := range funcsWithAnon(fn) {
		eachInstr(f, func(in ssa.Instruction) {
			if u, ok := in.(*ssa.UnOp); ok && u.Op == token.MUL && u.X == ssa.Value(a) {
				if f == fn && cellSortedBefore(fn, a, u) {
					return // the variable was sorted as a whole and not assigned since
				}
				oa.value(f, u, origin)
			}
		})
	}
}

// cellSortedBefore: the slice variable held in cell a (a captured or address-taken local) is totally sorted by a call
// that dominates the load, and no assignment to the variable can run after that call (stores in closures count as
// "can run").
func cellSortedBefore(fn *ssa.Function, a *ssa.Alloc, load *ssa.UnOp) bool {
	var sorts []*ssa.Call
	var stores []ssa.Instruction
	anonStore := false
	for _, f := range funcsWithAnon(fn) {
		eachInstr(f, func(in ssa.Instruction) {
			switch x := in.(type) {
			case *ssa.Store:
				if f == fn && x.Addr == ssa.Value(a) {
					stores = append(stores, x)
				}
				if f != fn {
					if fv, ok := x.Addr.(*ssa.FreeVar); ok && fv.Name() == a.Comment {
						anonStore = true
					}
				}
			case *ssa.Call:
				if f != fn {
					return
				}
				n := calleeName(x)
				if n = calleeBase(x); !isTotalSort(n) {
					return
				}
				arg := x.Call.Args[0]
				if mi, ok := arg.(*ssa.MakeInterface); ok {
					arg = mi.X
				}
				if u, ok := arg.(*ssa.UnOp); ok && u.Op == token.MUL && u.X == ssa.Value(a) {
					sorts = append(sorts, x)
				}
			}
		})
	}
	if anonStore {
		return false
	}
	ig := buildIG(fn)
	for _, c := range sorts {
		dom := false
		if c.Block() == load.Block() {
			for _, in := range c.Block().Instrs {
				if in == ssa.Instruction(c) {
					dom = true
					break
				}
				if in == ssa.Instruction(load) {
					break
				}
			}
		} else {
			dom = c.Block().Dominates(load.Block())
		}
		if !dom {
			continue
		}
		seen := ig.reachFrom(ig.after(c), func(ssa.Instruction) bool { return false })
		clean := true
		for _, st := range stores {
			if seen[ig.idx[st]] {
				clean = false
			}
		}
		if clean {
			return true
		}
	}
	return false
}

func (oa *ordAnalysis) checkMapUpdate(fn *ssa.Function, h *ssa.BasicBlock, mu *ssa.MapUpdate, vars []ssa.Value) string {
	// the location (map, key) must be injective in the loop variables: the map is the iteration's own object, or the key is the unique key
	if derivedFrom(mu.Map, vars, 0) {
		return ""
	}
	if uniqueKeyOf(mu.Key, vars) {
		return ""
	}
	if _, ok := mu.Map.(*ssa.MakeMap); ok && uniqueKeyOf(mu.Key, vars) {
		return ""
	}
	return "map store whose location is not injective in the loop variable (two iterations may write the same entry; the last one wins)"
}

var ordPureCalls = map[string]bool{
	"builtin:append": true, "builtin:len": true, "builtin:cap": true, "strings.HasPrefix": true, "strings.HasSuffix": true, "strings.Contains": true,
	"strings.TrimPrefix": true, "strings.SplitN": true, "strings.Split": true, "fmt.Sprintf": true, "strings.ToLower": true, "strings.Join": true,
	"strings.ReplaceAll": true, "strings.Repeat": true, "strconv.Itoa": true, "builtin:delete": false,
	"builtin:max": true, "builtin:min": true, "strings.Cut": true, "strings.CutPrefix": true, "strings.CutSuffix": true, "strings.TrimSuffix": true,
	"strings.ContainsRune": true, "strings.EqualFold": true, "strings.Index": true, "strings.IndexByte": true, "strconv.FormatBool": true,
	"unicode/utf8.RuneCountInString": true,
}

func (oa *ordAnalysis) checkCall(fn *ssa.Function, h *ssa.BasicBlock, c ssa.CallInstruction, vars []ssa.Value) string {
	n := calleeName(c)
	if ordPureCalls[n] || isIterPureMethod(n) {
		return ""
	}
	if calleeBase(c) == "maps.Copy" && len(c.Common().Args) == 2 && derivedFrom(c.Common().Args[0], vars, 0) {
		return "" // a set of stores into the iteration's own map: rule (iv)
	}
	if _, isLog := loggerCall(c); isLog {
		return ""
	}
	callee := c.Common().StaticCallee()
	if callee != nil && callee.Blocks != nil && oa.w.PkgOfFn(callee) != nil {
		if oa.w.isPure(callee) {
			return ""
		}
		// (iv): effects confined to the objects passed in, and what is passed is the iteration's own object (plus invariants)
		if ok, why := oa.confined(callee, map[*ssa.Function]bool{}); !ok {
			return "call of " + n + " whose effects are not confined to its arguments: " + why
		}
		return ""
	}
	if strings.HasPrefix(n, "dyn:") {
		// a function value: resolve the closures that can flow here (parameters bound at the call sites of fn)
		targets := oa.closureTargets(fn, c.Common().Value)
		if len(targets) == 0 {
			return "call through a function value that cannot be resolved"
		}
		for _, t := range targets {
			if ok, why := oa.confined(t, map[*ssa.Function]bool{}); !ok {
				return "callback " + short(t) + " has effects outside its argument: " + why
			}
		}
		return ""
	}
	if strings.HasPrefix(n, "fmt.Fprint") || strings.HasPrefix(n, "fmt.Print") || strings.HasPrefix(n, "invoke:") {
		loop := naturalLoop(h)
		if oa.guardedExit(c.Block(), vars, loop) {
			return ""
		}
		return "output / interface call " + n + " inside an unordered loop"
	}
	if isTotalSort(calleeBase(c)) {
		return ""
	}
	return "call of " + n + " inside an unordered loop is not known to be order-insensitive"
}

// closureTargets: v is a function-typed parameter of fn (or a captured one): the closures passed at fn's call sites.
func (oa *ordAnalysis) closureTargets(fn *ssa.Function, v ssa.Value) []*ssa.Function {
	var out []*ssa.Function
	p, ok := v.(*ssa.Parameter)
	if !ok {
		return nil
	}
	idx := paramIndex(fn, p)
	seen := map[*ssa.Function]bool{}
	for _, caller := range oa.w.Funcs {
		for _, c := range allCalls(caller) {
			if c.Common().StaticCallee() != fn || idx >= len(c.Common().Args) {
				continue
			}
			a := c.Common().Args[idx]
			switch x := a.(type) {
			case *ssa.MakeClosure:
				if t, ok := x.Fn.(*ssa.Function); ok && !seen[t] {
					seen[t] = true
					out = append(out, t)
				}
			case *ssa.Function:
				if !seen[x] {
					seen[x] = true
					out = append(out, x)
				}
			case *ssa.Parameter:
				if caller == fn {
					continue // recursion passes it on
				}
				return nil
			default:
				return nil
			}
		}
	}
	return out
}

// confined: every store / map update of fn (and its same-module callees) is rooted at a parameter, a fresh allocation
// or something reached from them; no global is written and no output is produced.
func (oa *ordAnalysis) confined(fn *ssa.Function, seen map[*ssa.Function]bool) (bool, string) {
	if seen[fn] {
		return true, ""
	}
	seen[fn] = true
	if fn.Blocks == nil {
		return false, "no body: " + short(fn)
	}
	okRoot := func(v ssa.Value) bool {
		for i := 0; i < 10; i++ {
			r := rootOfAddr(v)
			switch x := r.(type) {
			case *ssa.Parameter, *ssa.Alloc, *ssa.MakeMap, *ssa.MakeSlice:
				return true
			case *ssa.FreeVar:
				// a captured variable of the enclosing function: storing into the variable itself carries state
				// from one visit of the unordered walk to the next (only a location reached *through* it is fine)
				return i > 0
			case *ssa.UnOp:
				v = x.X
				continue
			case *ssa.Extract:
				return true // element of something reached from the parameters (range value / lookup)
			case *ssa.Lookup:
				v = x.X
				continue
			case *ssa.IndexAddr:
				v = x.X // element of a slice: as confined as the slice
				continue
			case *ssa.Slice:
				v = x.X
				continue
			case *ssa.Call:
				return true
			case *ssa.Phi:
				return true
			case *ssa.Global:
				return false
			}
			return false
		}
		return false
	}
	bad := ""
	eachInstr(fn, func(in ssa.Instruction) {
		switch x := in.(type) {
		case *ssa.Store:
			if !okRoot(x.Addr) {
				bad = "store to " + x.Addr.String() + " at " + oa.w.IPos(x)
			}
		case *ssa.MapUpdate:
			if !okRoot(x.Map) {
				bad = "map store at " + oa.w.IPos(x)
			}
		case *ssa.Send, *ssa.Go:
			bad = "concurrency at " + oa.w.IPos(in)
		case ssa.CallInstruction:
			n := calleeName(x)
			if ordPureCalls[n] || n == "builtin:panic" {
				return
			}
			if calleeBase(x) == "maps.Copy" && len(x.Common().Args) == 2 {
				if !okRoot(x.Common().Args[0]) {
					bad = "map copy at " + oa.w.IPos(x)
				}
				return
			}
			if _, isLog := loggerCall(x); isLog {
				return
			}
			callee := x.Common().StaticCallee()
			if callee != nil && callee.Blocks != nil && oa.w.PkgOfFn(callee) != nil {
				if ok, why := oa.confined(callee, seen); !ok {
					bad = why
				}
				return
			}
			if strings.HasPrefix(n, "dyn:") {
				// closure variable defined in the enclosing function (cmdFn): resolve through the free variable's stores
				if ts := oa.freeVarClosures(fn, x.Common().Value); len(ts) > 0 {
					for _, t := range ts {
						if ok, why := oa.confined(t, seen); !ok {
							bad = why
						}
					}
					return
				}
				if ts := oa.closureTargets(fn, x.Common().Value); len(ts) > 0 {
					for _, t := range ts {
						if ok, why := oa.confined(t, seen); !ok {
							bad = why
						}
					}
					return
				}
			}
			if n == "option.New" || strings.HasPrefix(n, "(*option.Option).") {
				return
			}
			bad = "call of " + n + " at " + oa.w.IPos(in)
		}
	})
	return bad == "", bad
}

// freeVarClosures: v is a load of a free variable that holds a closure created in the parent function.
func (oa *ordAnalysis) freeVarClosures(fn *ssa.Function, v ssa.Value) []*ssa.Function {
	var fv *ssa.FreeVar
	switch x := v.(type) {
	case *ssa.FreeVar:
		fv = x
	case *ssa.UnOp:
		fv, _ = x.X.(*ssa.FreeVar)
	}
	if fv == nil || fn.Parent() == nil {
		return nil
	}
	idx := -1
	for i, f := range fn.FreeVars {
		if f == fv {
			idx = i
		}
	}
	var out []*ssa.Function
	eachInstr(fn.Parent(), func(in ssa.Instruction) {
		mc, ok := in.(*ssa.MakeClosure)
		if !ok || mc.Fn != ssa.Value(fn) || idx < 0 || idx >= len(mc.Bindings) {
			return
		}
		b := mc.Bindings[idx]
		if a, ok := b.(*ssa.Alloc); ok {
			for _, sv := range storesInto(a) {
				if c2, ok := sv.(*ssa.MakeClosure); ok {
					if t, ok := c2.Fn.(*ssa.Function); ok {
						out = append(out, t)
					}
				}
				if t, ok := sv.(*ssa.Function); ok {
					out = append(out, t)
				}
			}
		}
		if c2, ok := b.(*ssa.MakeClosure); ok {
			if t, ok := c2.Fn.(*ssa.Function); ok {
				out = append(out, t)
			}
		}
	})
	return out
}

// sortDominates: a total sort of value v dominates instruction use.
func sortedBefore(v ssa.Value, use ssa.Instruction) bool {
	refs := v.Referrers()
	if refs == nil {
		return false
	}
	for _, r := range *refs {
		c, ok := r.(*ssa.Call)
		if !ok {
			continue
		}
		n := calleeBase(c)
		if !isTotalSort(n) {
			continue
		}
		if c.Call.Args[0] != v {
			if mi, ok := c.Call.Args[0].(*ssa.MakeInterface); !ok || mi.X != v {
				continue
			}
		}
		if c.Block() == use.Block() {
			for _, in := range c.Block().Instrs {
				if in == ssa.Instruction(c) {
					return true
				}
				if in == use {
					break
				}
			}
		} else if c.Block().Dominates(use.Block()) {
			return true
		}
	}
	return false
}

// value follows an unordered slice value to its uses.
func (oa *ordAnalysis) value(fn *ssa.Function, v ssa.Value, origin string) {
	k := fmt.Sprintf("%p", v)
	if oa.doneVal[k] {
		return
	}
	oa.doneVal[k] = true
	oa.nVals++
	w, ru := oa.w, oa.ru
	refs := v.Referrers()
	if refs == nil {
		return
	}
	for _, ref := range *refs {
		if _, isDbg := ref.(*ssa.DebugRef); isDbg {
			continue
		}
		if sortedBefore(v, ref) {
			continue // ordered from here on
		}
		key := short(fn) + "/unordered-slice-use"
		switch x := ref.(type) {
		case *ssa.Phi:
			oa.value(fn, x, origin)
		case *ssa.ChangeType:
			oa.value(fn, x, origin)
		case *ssa.MakeInterface:
			oa.value(fn, x, origin)
		case *ssa.Slice:
			if x.X == v && (x.Low != nil || x.High != nil) {
				// s[:n] / s[n:] of a slice whose order is not fixed yet: which elements survive depends on that order
				ru.Bad(key, w.IPos(x), origin+": a sub-range of an unordered slice is taken by position before it is sorted (which elements it holds depends on map order)")
				continue
			}
			oa.value(fn, x, origin)
		case *ssa.Call:
			n := calleeName(x)
			switch {
			case n == "builtin:len" || n == "builtin:cap":
			case isTotalSort(calleeBase(x)):
			case calleeBase(x) == "slices.Contains" || calleeBase(x) == "slices.Index":
				// membership does not depend on the order
			case calleeBase(x) == "slices.Clone" || calleeBase(x) == "slices.Concat":
				oa.value(fn, x, origin)
			case n == "builtin:append":
				oa.value(fn, x, origin)
			default:
				if _, isLog := loggerCall(x); isLog {
					continue // the debug Logger is not an observable output (trusted base)
				}
				callee := x.Call.StaticCallee()
				if callee != nil && callee.Blocks != nil && w.PkgOfFn(callee) != nil {
					for i, a := range x.Call.Args {
						if a == v && i < len(callee.Params) {
							oa.value(callee, callee.Params[i], origin+" → parameter "+callee.Params[i].Name()+" of "+short(callee))
						}
					}
				} else {
					ru.Bad(key, w.IPos(x), origin+": unordered slice passed to "+n+" before being sorted")
				}
			}
		case *ssa.Return:
			// result taint: follow to the callers
			for i, res := range x.Results {
				if res != v {
					continue
				}
				for _, caller := range w.Funcs {
					for _, c := range allCalls(caller) {
						if c.Common().StaticCallee() != fn {
							continue
						}
						cv := c.Value()
						if cv == nil {
							continue
						}
						if len(x.Results) == 1 {
							oa.value(caller, cv, origin+" → result of "+short(fn))
						} else {
							for _, r2 := range *cv.Referrers() {
								if ex, ok := r2.(*ssa.Extract); ok && ex.Index == i {
									oa.value(caller, ex, origin+" → result of "+short(fn))
								}
							}
						}
					}
				}
				// exported entry points returning an unordered list to the user
				if len(fn.Pkg.Pkg.Path()) > 0 && fn.Object() != nil && fn.Object().Exported() && fn.Signature.Recv() != nil && short(fn) != "(*getoptions.programTree).str" {
					ru.Bad(key, w.IPos(x), origin+": unordered slice returned by exported "+short(fn))
				}
			}
		case *ssa.Store:
			if x.Val != v {
				continue
			}
			if fa, ok := x.Addr.(*ssa.FieldAddr); ok {
				f := fieldOfAddr(fa)
				if !oa.fields[f] {
					oa.fields[f] = true
					for _, u := range w.fieldUses(f) {
						if u.Kind == "read" {
							if ld, ok := u.Instr.(ssa.Value); ok {
								oa.value(u.Fn, ld, origin+" → field "+f.Name())
							}
						}
					}
				}
				continue
			}
			if a, ok := rootOfAddr(x.Addr).(*ssa.Alloc); ok {
				// element of a literal (variadic packing) or a local variable
				if sl := sliceOfAlloc(a); sl != nil {
					oa.value(fn, sl, origin)
				} else {
					oa.allocAccumulator(fn, a, origin)
				}
				continue
			}
			ru.Bad(key, w.IPos(x), origin+": unordered slice stored to "+x.Addr.String())
		case *ssa.IndexAddr:
			// element access: allowed inside a range loop over the slice (→ unordered loop) or index 0 of a singleton
			if h := rangeHeaderFor(x, v); h != nil && isRangeCounter(x.Index, h) {
				el := rangeElem(h)
				oa.loop(fn, h, []ssa.Value{el}, origin+" → range over the unordered slice at "+w.IPos(x), false)
				continue
			}
			if k, ok := constInt(x.Index); ok && k == 0 && maxLenAt(x.Block(), v) <= 1 {
				continue
			}
			ru.Bad(key, w.IPos(x), origin+": element of an unordered slice selected by position (which element that is depends on map order)")
		case *ssa.BinOp, *ssa.If:
		case *ssa.Range:
			// range over string/map built from it: not expected
			ru.Bad(key, w.IPos(x), origin+": unexpected range form over unordered value")
		default:
			ru.Bad(key, w.IPos(ref), origin+": unordered slice used by "+describeInstr(ref))
		}
	}
	oa.ru.OK(short(fn)+"/unordered-slice", w.Pos(fn.Pos()), origin+": all uses are len / sort / range / propagation")
}

// sliceOfAlloc: the Slice instruction taken of an array allocation (variadic / literal packing).
func sliceOfAlloc(a *ssa.Alloc) ssa.Value {
	if a.Referrers() == nil {
		return nil
	}
	for _, r := range *a.Referrers() {
		if s, ok := r.(*ssa.Slice); ok {
			return s
		}
	}
	return nil
}

// rangeHeaderFor: ia indexes v inside a rangeindex loop over v.
func rangeHeaderFor(ia *ssa.IndexAddr, v ssa.Value) *ssa.BasicBlock {
	for _, h := range loopHeaders(ia.Parent()) {
		if rangeCollectionOfHeader(h) == v && h.Succs[0] == ia.Block() {
			return h
		}
		if coll := rangeCollectionOfHeader(h); coll != nil && coll == v && h.Dominates(ia.Block()) && isRangeCounter(ia.Index, h) {
			return h // the loop whose own counter is the index (an earlier loop over the same slice also dominates)
		}
	}
	return nil
}

// maxLenAt: smallest upper bound on len(coll) established by the facts at b (large if none).
func maxLenAt(b *ssa.BasicBlock, coll ssa.Value) int64 {
	best := int64(1 << 40)
	for _, f := range factsAt(b) {
		if f.Y == nil {
			continue
		}
		c, ok := lenOf(f.X)
		if !ok || !sameColl(c, coll) {
			continue
		}
		k, ok := constInt(f.Y)
		if !ok {
			continue
		}
		var n int64 = 1 << 40
		switch f.Op {
		case token.LEQ, token.EQL:
			n = k
		case token.LSS:
			n = k - 1
		}
		if n < best {
			best = n
		}
	}
	return best
}

// ------------------------------------------------------------------ R20.2

var c20AllowedPkgs = map[string]bool{"fmt": true, "sort": true, "strconv": true, "strings": true, "regexp": true, "errors": true, "unicode": true, "unicode/utf8": true, "bytes": true, "io": true}

func rC20Sources(w *World, r *Report) {
	ru := r.Rule("R20.2", "no go / select statement and no standard-library call outside the allow-list (fmt, sort, strconv, strings, regexp, errors, unicode, bytes, io; os.Getenv, os.Exit via exitFn, filepath.Base, log only through the debug Logger) is reachable from Parse / Dispatch / Help (first hop out of the module; user functions cut off)", 40)
	roots := c19Roots(w)
	for _, rt := range roots {
		if rt == nil {
			ru.Undecided("anchor", "-", "an entry point was not found")
			return
		}
	}
	reach := w.reachableFrom(roots, cutUserCode)
	var fns []*ssa.Function
	for fn := range reach {
		if fn.Blocks != nil && w.PkgOfFn(fn) != nil && isLibNonDag(fn) {
			fns = append(fns, fn)
		}
	}
	sort.Slice(fns, func(i, j int) bool { return fns[i].String() < fns[j].String() })
	for _, fn := range fns {
		bad := false
		eachInstr(fn, func(in ssa.Instruction) {
			switch x := in.(type) {
			case *ssa.Go, *ssa.Select:
				bad = true
				ru.Bad("concurrency/"+short(fn), w.IPos(in), "go / select reachable from an entry point: the result may depend on scheduling")
			case ssa.CallInstruction:
				callee := x.Common().StaticCallee()
				if callee == nil || callee.Pkg == nil || w.Pkgs[callee.Pkg.Pkg.Path()] != nil {
					return
				}
				pkg := callee.Pkg.Pkg.Path()
				n := short(callee)
				ok := c20AllowedPkgs[pkg]
				switch n {
				case "os.Getenv", "os.LookupEnv", "path/filepath.Base", "os.Exit":
					ok = true
				}
				if _, isLog := loggerCall(x); isLog {
					ok = true
				}
				if !ok {
					bad = true
					ru.Bad("call/"+short(fn), w.IPos(in), "call of "+n+": a source of hidden state (time, randomness, process / runtime state, reflection) outside the allow-list")
				}
			}
		})
		if !bad {
			ru.Present("function/"+short(fn), w.Pos(fn.Pos()), "only allow-listed standard library calls")
		}
	}
}

// ------------------------------------------------------------------ R20.3

func rC20SortKeys(w *World, r *Report) {
	ru := r.Rule("R20.3", "unstable sorts have unique keys: the only sort.Slice site is option.Sort comparing Name with <; it is applied to lists derived from helpOutput's option list, which keeps one entry per record (filtered by map key == Name)", 3)
	n := 0
	for _, fn := range w.Funcs {
		if !isLibNonDag(fn) {
			continue
		}
		for _, c := range callsTo(fn, "sort.Slice") {
			n++
			good := short(fn) == "option.Sort"
			if mc, ok := c.Common().Args[1].(*ssa.MakeClosure); ok && good {
				less := mc.Fn.(*ssa.Function)
				cmp := false
				eachInstr(less, func(in ssa.Instruction) {
					if bo, ok := in.(*ssa.BinOp); ok && bo.Op == token.LSS {
						_, n1 := loadOfFieldNamed(bo.X, "Name")
						_, n2 := loadOfFieldNamed(bo.Y, "Name")
						cmp = n1 && n2
					}
				})
				good = cmp
			}
			// a comparison of the whole elements of a slice of strings / numbers (s[i] < s[j]) is a total order on the
			// values themselves: equal elements are indistinguishable, so stability does not matter
			if !good {
				if mc, ok := c.Common().Args[1].(*ssa.MakeClosure); ok {
					less, _ := mc.Fn.(*ssa.Function)
					arg := c.Common().Args[0]
					if mi, ok := arg.(*ssa.MakeInterface); ok {
						arg = mi.X
					}
					if st, ok := arg.Type().Underlying().(*types.Slice); ok && less != nil && len(less.Params) == 2 {
						if _, basic := st.Elem().Underlying().(*types.Basic); basic {
							whole, others := false, false
							eachInstr(less, func(in ssa.Instruction) {
								bo, ok := in.(*ssa.BinOp)
								if !ok {
									return
								}
								elemOf := func(v ssa.Value, idx ssa.Value) bool {
									u, ok := v.(*ssa.UnOp)
									if !ok || u.Op != token.MUL {
										return false
									}
									ia, ok := u.X.(*ssa.IndexAddr)
									return ok && ia.Index == idx && isFreeVarLoadOrSelf(ia.X)
								}
								if (bo.Op == token.LSS || bo.Op == token.GTR) && elemOf(bo.X, less.Params[0]) && elemOf(bo.Y, less.Params[1]) {
									whole = true
								} else {
									others = true
								}
							})
							if whole && !others && len(mc.Bindings) == 1 {
								good = true
							}
						}
					}
				}
			}
			// records keyed by the keys of one map (one record appended per iteration of a range over the map, its
			// compared field holding the map key): the keys are unique by construction
			if !good {
				if mc, ok := c.Common().Args[1].(*ssa.MakeClosure); ok {
					if less, _ := mc.Fn.(*ssa.Function); less != nil {
						arg := c.Common().Args[0]
						if mi, ok := arg.(*ssa.MakeInterface); ok {
							arg = mi.X
						}
						good = sortedByMapKey(arg, mc, less)
					}
				}
			}
			ru.Check(good, "sort.Slice/"+short(fn), w.IPos(c), "unique keys (option.Sort: by Name; records keyed by the keys of one map) or a total order on whole elements", "an unstable sort whose key uniqueness is not established")
		}
	}
	if n == 0 {
		ru.Present("sort.Slice", "-", "no unstable sort in the library")
	}
	// callers of option.Sort and of the help renderers
	for _, fn := range w.Funcs {
		for _, c := range callsTo(fn, "option.Sort") {
			ok := short(fn) == "help.Synopsis" || short(fn) == "help.OptionList"
			ru.Check(ok, "Sort-caller/"+short(fn), w.IPos(c), "help renderer", "option.Sort applied to a list whose names may repeat")
		}
		for _, name := range []string{"help.Synopsis", "help.OptionList"} {
			for _, c := range callsTo(fn, name) {
				ru.Check(short(fn) == "getoptions.helpOutput", "renderer-caller/"+short(fn), w.IPos(c), "called with helpOutput's filtered list", name+" called with a list that is not filtered by key == Name")
			}
		}
	}
	// the filter
	if ho := optionListBuilder(w); ho != nil {
		okFilter := false
		for _, c := range callsTo(ho, "builtin:append") {
			call := c.(*ssa.Call)
			if typeString(call.Type()) != "[]*option.Option" {
				continue
			}
			for _, f := range factsAt(call.Block()) {
				if f.Op == token.EQL && f.Y != nil {
					_, n1 := loadOfFieldNamed(f.X, "Name")
					_, n2 := loadOfFieldNamed(f.Y, "Name")
					if n1 || n2 {
						okFilter = true
					}
				}
			}
		}
		ru.Check(okFilter, "helpOutput/one-entry-per-record", w.Pos(ho.Pos()), "append only under key == option.Name", "the option list can contain a record more than once (aliases): sort order among equal names is unspecified")
	}
}

// isFreeVarLoadOrSelf: v is a captured variable (or a load of one): the slice the less function closes over.
// sortedByMapKey: arg is the content of a local slice variable of records; less compares one field F of two of its
// elements with < and nothing else; every store into the variable is an empty slice or append(<itself>, one record)
// whose F is the key of the map ranged over.
func sortedByMapKey(arg ssa.Value, mc *ssa.MakeClosure, less *ssa.Function) bool {
	ld, ok := arg.(*ssa.UnOp)
	if !ok || ld.Op != token.MUL {
		return false
	}
	al, ok := ld.X.(*ssa.Alloc)
	if !ok || len(less.Params) != 2 || len(mc.Bindings) != 1 || mc.Bindings[0] != ssa.Value(al) {
		return false
	}
	fieldOfElem := func(v ssa.Value, idx ssa.Value) int {
		u, ok := v.(*ssa.UnOp)
		if !ok || u.Op != token.MUL {
			return -1
		}
		fa, ok := u.X.(*ssa.FieldAddr)
		if !ok {
			return -1
		}
		ia, ok := fa.X.(*ssa.IndexAddr)
		if !ok || ia.Index != idx || !isFreeVarLoadOrSelf(ia.X) {
			return -1
		}
		return fa.Field
	}
	field, cmps := -1, 0
	eachInstr(less, func(in ssa.Instruction) {
		bo, ok := in.(*ssa.BinOp)
		if !ok {
			return
		}
		cmps++
		f1, f2 := fieldOfElem(bo.X, less.Params[0]), fieldOfElem(bo.Y, less.Params[1])
		if bo.Op == token.LSS && f1 >= 0 && f1 == f2 {
			field = f1
		}
	})
	if field < 0 || cmps != 1 || al.Referrers() == nil {
		return false
	}
	isMapKey := func(v ssa.Value) bool {
		ex, ok := v.(*ssa.Extract)
		if !ok || ex.Index != 1 {
			return false
		}
		nx, ok := ex.Tuple.(*ssa.Next)
		if !ok || nx.IsString {
			return false
		}
		rg, ok := nx.Iter.(*ssa.Range)
		if !ok {
			return false
		}
		_, isMap := rg.X.Type().Underlying().(*types.Map)
		return isMap
	}
	// the value stored into field `field` of the record behind addr (a local record, or an element slot)
	var keyStored func(addr ssa.Value, d int) bool
	keyStored = func(addr ssa.Value, d int) bool {
		if d > 3 || addr.Referrers() == nil {
			return false
		}
		found := false
		for _, ref := range *addr.Referrers() {
			switch x := ref.(type) {
			case *ssa.FieldAddr:
				if x.Field != field || x.Referrers() == nil {
					continue
				}
				for _, r2 := range *x.Referrers() {
					if st, ok := r2.(*ssa.Store); ok && st.Addr == ssa.Value(x) {
						if !isMapKey(st.Val) {
							return false
						}
						found = true
					}
				}
			case *ssa.Store:
				if x.Addr != addr {
					continue
				}
				// a whole record copied in: look at where it was built
				if l2, ok := x.Val.(*ssa.UnOp); ok && l2.Op == token.MUL {
					if !keyStored(l2.X, d+1) {
						return false
					}
					found = true
				} else {
					return false
				}
			}
		}
		return found
	}
	appends := 0
	for _, ref := range *al.Referrers() {
		st, ok := ref.(*ssa.Store)
		if !ok || st.Addr != ssa.Value(al) {
			continue
		}
		switch v := st.Val.(type) {
		case *ssa.MakeSlice:
			if k, ok := constInt(v.Len); !ok || k != 0 {
				return false
			}
		case *ssa.Const:
		case *ssa.Slice: // an empty composite literal
			a2, ok := v.X.(*ssa.Alloc)
			if !ok {
				return false
			}
			if arr, ok := derefType(a2.Type()).Underlying().(*types.Array); !ok || arr.Len() != 0 {
				return false
			}
		case *ssa.Call:
			if calleeName(v) != "builtin:append" || len(v.Call.Args) != 2 {
				return false
			}
			base, ok := v.Call.Args[0].(*ssa.UnOp)
			if !ok || base.X != ssa.Value(al) {
				return false
			}
			sl, ok := v.Call.Args[1].(*ssa.Slice)
			if !ok {
				return false
			}
			arrA, ok := sl.X.(*ssa.Alloc)
			if !ok || arrA.Referrers() == nil {
				return false
			}
			if arr, ok := derefType(arrA.Type()).Underlying().(*types.Array); !ok || arr.Len() != 1 {
				return false
			}
			okSlot := false
			for _, r2 := range *arrA.Referrers() {
				if ia, ok := r2.(*ssa.IndexAddr); ok {
					if !keyStored(ia, 0) {
						return false
					}
					okSlot = true
				}
			}
			if !okSlot {
				return false
			}
			appends++
		default:
			return false
		}
	}
	return appends > 0
}

func isFreeVarLoadOrSelf(v ssa.Value) bool {
	if _, ok := v.(*ssa.FreeVar); ok {
		return true
	}
	if u, ok := v.(*ssa.UnOp); ok && u.Op == token.MUL {
		_, ok := u.X.(*ssa.FreeVar)
		return ok
	}
	return false
}

// ------------------------------------------------------------------ R20.4

func rC20Formatting(w *World, r *Report) {
	ru := r.Rule("R20.4", "no pointer-, func-, chan- or unsafe-typed operand is handed to a fmt formatting call (its text would contain an address); errors and Stringers are fine", 40)
	for _, fn := range w.Funcs {
		if !isLibNonDag(fn) {
			continue
		}
		for _, c := range allCalls(fn) {
			n := calleeName(c)
			if !strings.HasPrefix(n, "fmt.") {
				continue
			}
			args := c.Common().Args
			if len(args) == 0 {
				continue
			}
			els, _, _ := elementsOf(args[len(args)-1], map[ssa.Value]bool{})
			bad := ""
			for _, e := range els {
				mi, ok := e.(*ssa.MakeInterface)
				if !ok {
					continue
				}
				t := mi.X.Type()
				switch t.Underlying().(type) {
				case *types.Pointer, *types.Signature, *types.Chan:
					if !implementsErrorOrStringer(t) {
						bad = typeString(t)
					}
				}
			}
			if bad == "" {
				ru.Present("fmt-call/"+short(fn), w.IPos(c), "operands are values, errors or Stringers")
			} else {
				ru.Bad("fmt-call/"+short(fn), w.IPos(c), "an operand of type "+bad+" is formatted: the text contains a memory address")
			}
		}
	}
}

func implementsErrorOrStringer(t types.Type) bool {
	ms := types.NewMethodSet(t)
	for i := 0; i < ms.Len(); i++ {
		n := ms.At(i).Obj().Name()
		if n == "Error" || n == "String" {
			return true
		}
	}
	return false
}

// isRangeCounter: idx is the counter (phi+1) of the rangeindex loop with header h.
func isRangeCounter(idx ssa.Value, h *ssa.BasicBlock) bool {
	// classic index loop `for i := 0; i < len(x); i++` (recognised by rangeCollectionOfHeader): the counter itself
	if phi, ok := idx.(*ssa.Phi); ok && phi.Block() == h && rangeCollectionOfHeader(h) != nil {
		if iff, ok := h.Instrs[len(h.Instrs)-1].(*ssa.If); ok {
			if cmp, ok := iff.Cond.(*ssa.BinOp); ok && cmp.X == ssa.Value(phi) {
				return true
			}
		}
	}
	bo, ok := idx.(*ssa.BinOp)
	if !ok || bo.Op != token.ADD {
		return false
	}
	phi, ok := bo.X.(*ssa.Phi)
	return ok && phi.Block() == h && phi.Comment == "rangeindex"
}

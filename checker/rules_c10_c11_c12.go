package main

// C10 - dispatch.  C11 - required options and help.  C12 - precedence command line > environment > default.

import (
	"fmt"
	"go/constant"
	"go/token"
	"go/types"
	"strings"

	"golang.org/x/tools/go/callgraph"
	"golang.org/x/tools/go/ssa"
)

type callgraphEdge = callgraph.Edge

const nDynCommandFn = "dyn:getoptions.CommandFn"
const nDynModifyFn = "dyn:getoptions.ModifyFn"

func init() {
	register("C10", "other", []string{
		"decides: one CommandFn call site in the package, in Dispatch, outside any loop, calling the final node's function with (ctx, a fresh view whose both fields are the final node, remaining); the parse cursor moves at exactly one site, on a fresh plain token equal to a command name of the cursor's own table, to that command's node; finalNode is written only by Parse from the parser's result; options are shared with children by pointer",
		"'deepest command' is decided as 'the last cursor move wins'; user functions themselves are out of scope",
	}, rC10Call, rC10Descent, rC10FinalNode, rC10CopyOptions, typestateRule("R10.6"), exactStopsRule("R10.7"), func(w *World, r *Report) {
		subRule(w, r, rC09Readers, "R10.8", "where the require-order stop point lies is decided per node at definition time (same obligations as C09 R09.3)", 3)
	})
	register("C11", "other", []string{
		"decides: Dispatch: help test, then the required gate, then (and only on its nil edge) the CommandFn call; Parse: root gate under Parent == nil and not-help before any success return; the gate visits every option of the node and wraps ErrorParsing with %w; CheckRequired evaluated exhaustively over (IsRequired, Called); help edges write helpOutput to Writer and return ErrorHelpCalled without reaching the user function",
		"help text content is C18",
	}, rC11DispatchOrder, rC11Gate, rC11ParseGate, rC11HelpEdges, rC11CheckRequired, func(w *World, r *Report) {
		subRule(w, r, rC10CopyOptions, "R11.7", "the help option and its aliases reach every command level because HelpCommand copies the options to all children after defining them (same obligations as C10 R10.5)", 3)
	}, rC11RequiredVerbatim, rC11RunHelpNode, func(w *World, r *Report) {
		subRule(w, r, rC12Reachability, "R11.9", "a required option is satisfied by its environment variable at every level because the variable is applied at definition time (same obligations as C12 R12.2)", 2)
	}, func(w *World, r *Report) {
		subRule(w, r, rC12GetenvCallers, "R11.10", "same obligations as C12 R12.1", 3)
	})
	register("C12", "other", []string{
		"decides: os.Getenv is called only by the GetEnv modifier (variable name) and by Parse (two constants); no Getenv with a non-constant name and no ModifyFn call is reachable from Parse / Dispatch, ModifyFn values are invoked only inside the definers after the default was stored: the environment is applied at definition time, any command-line Save comes later; GetEnv handles the seven scalar kinds, saves the variable's text verbatim (bools: only the lower-cased literals true/false), does nothing for an empty value and marks the option called with the variable's name",
		"Called after an *invalid* int/float text is an observation, not decided (the value stays default because Save stores nothing on its error path, C01 R01.5)",
	}, rC12GetenvCallers, rC12Reachability, definersRule("R12.3"), rC12GetEnvBody, func(w *World, r *Report) {
		subRule(w, r, rC01TypedStore, "R12.5", "text valid for the type: the Save used by GetEnv stores exactly the strconv conversion and nothing on its error path (same obligations as C01 R01.4)", 8)
	}, func(w *World, r *Report) {
		subRule(w, r, rC01ErrDiscipline, "R12.6", "conversion errors never store (same obligations as C01 R01.5)", 10)
	})
}

// ------------------------------------------------------------------ C10

func rC10Call(w *World, r *Report) {
	ru := r.Rule("R10.1", "exactly one call through a CommandFn value in the package: in Dispatch, outside any loop, callee = finalNode.CommandFn (guarded non-nil), operands = (ctx parameter, fresh GetOpt{finalNode, finalNode}, remaining parameter)", 2)
	fn := w.Fn(nDispatch)
	if fn == nil {
		ru.Undecided("anchor", "-", "Dispatch not found")
		return
	}
	var sites []ssa.CallInstruction
	for _, f := range w.Funcs {
		if f.Pkg == nil || shortName(f.Pkg.Pkg.Path()) != "getoptions" {
			continue
		}
		for _, c := range allCalls(f) {
			if calleeName(c) == nDynCommandFn {
				sites = append(sites, c)
				if f != fn {
					ru.Bad("other-call-site/"+short(f), w.IPos(c), "a user command function is invoked outside Dispatch")
				}
			}
		}
	}
	n := 0
	for _, c := range sites {
		if c.Parent() != fn {
			continue
		}
		n++
		var problems []string
		call, ok := c.(*ssa.Call)
		if !ok {
			ru.Bad("Dispatch/call", w.IPos(c), "the command function is started with go/defer")
			continue
		}
		if blockInCycle(call.Block()) {
			problems = append(problems, "the call sits in a loop (could run more than once)")
		}
		finalOf := func(v ssa.Value) bool {
			b, ok := loadOfFieldNamed(v, "finalNode")
			return ok && b == ssa.Value(fn.Params[0])
		}
		// callee
		if base, ok := loadOfFieldNamed(call.Call.Value, "CommandFn"); !ok || !finalOf(base) {
			problems = append(problems, "the function called is not finalNode.CommandFn (e.g. the root's or the parent's)")
		}
		a := call.Call.Args
		if len(a) != 3 {
			problems = append(problems, "unexpected operand count")
		} else {
			if a[0] != ssa.Value(fn.Params[1]) {
				problems = append(problems, "the caller's context is not passed on")
			}
			if a[2] != ssa.Value(fn.Params[2]) {
				problems = append(problems, "the remaining arguments are not passed on unmodified")
			}
			al, ok := a[1].(*ssa.Alloc)
			if !ok {
				problems = append(problems, "the view is not a fresh GetOpt")
			} else {
				stores := map[string]ssa.Value{}
				eachInstr(fn, func(in ssa.Instruction) {
					if base, f, v, ok := storeField(in); ok && base == ssa.Value(al) {
						stores[f.Name()] = v
					}
				})
				for _, fld := range []string{"programTree", "finalNode"} {
					if v, ok := stores[fld]; !ok || !finalOf(v) {
						problems = append(problems, "view."+fld+" is not the final node: the command would see another level's options")
					}
				}
			}
		}
		// guarded non-nil
		guarded := false
		for _, f := range factsAt(call.Block()) {
			if f.Op == token.NEQ && f.Y != nil && isNilConst(f.Y) {
				if base, ok := loadOfFieldNamed(f.X, "CommandFn"); ok && finalOf(base) {
					guarded = true
				}
			}
		}
		if !guarded {
			problems = append(problems, "the call is not guarded by CommandFn != nil")
		}
		if len(problems) == 0 {
			ru.OK("Dispatch/call", w.IPos(call), "finalNode.CommandFn(ctx, &GetOpt{finalNode, finalNode}, remaining), once")
		} else {
			ru.Bad("Dispatch/call", w.IPos(call), strings.Join(problems, "; "))
		}
	}
	if n != 1 {
		ru.Bad("Dispatch/call-count", w.Pos(fn.Pos()), fmt.Sprintf("%d CommandFn call sites in Dispatch, expected exactly one", n))
	} else {
		ru.OK("Dispatch/call-count", w.Pos(fn.Pos()), "one call site")
	}
	// when the selected command has a function nothing but help / the required gate may return before it is called
	ig := buildIG(fn)
	if d := dispatchCall(fn); d != nil {
		var fnTest *ssa.If
		for _, b := range fn.Blocks {
			if iff, ok := b.Instrs[len(b.Instrs)-1].(*ssa.If); ok {
				for _, f := range condFacts(iff.Cond, true, iff) {
					if f.Y != nil && isNilConst(f.Y) {
						if _, ok := loadOfFieldNamed(f.X, "CommandFn"); ok && b.Dominates(d.Block()) {
							fnTest = iff
						}
					}
				}
			}
		}
		help := helpTest(fn)
		if fnTest == nil {
			ru.Bad("Dispatch/direct", w.IPos(d), "no CommandFn != nil test dominates the call")
		} else {
			seen := ig.reachFromE([]int{0}, func(in ssa.Instruction) bool { return in == ssa.Instruction(fnTest) }, func(term ssa.Instruction, k int) bool {
				if t, ok := term.(*ssa.If); ok {
					if help != nil && t == help && k == helpEdge(help) {
						return false
					}
					// the required gate's error edge
					for _, f := range condFacts(t.Cond, k == 0, t) {
						if f.Op == token.NEQ && f.Y != nil && isNilConst(f.Y) {
							if c, ok := f.X.(*ssa.Call); ok && c.Call.StaticCallee() != nil && w.PkgOfFn(c.Call.StaticCallee()) != nil {
								return false
							}
						}
					}
				}
				return true
			})
			early := false
			for i, sn := range seen {
				if _, ok := ig.instrs[i].(*ssa.Return); ok && sn {
					early = true
				}
			}
			ru.Check(!early, "Dispatch/direct", w.IPos(fnTest), "apart from help and a missing required option nothing returns before the command's function is looked at", "Dispatch can return (e.g. print a landing help) although the selected command has a function: the function would not run")
			// and once the function is known to exist, it is called: no path from the non-nil edge returns without the call
			for k := 0; k < 2; k++ {
				nonNil := false
				for _, f := range condFacts(fnTest.Cond, k == 0, fnTest) {
					if f.Op == token.NEQ && f.Y != nil && isNilConst(f.Y) {
						if _, ok := loadOfFieldNamed(f.X, "CommandFn"); ok {
							nonNil = true
						}
					}
				}
				if !nonNil {
					continue
				}
				okCall, _ := ig.mustPass(ig.edgeStart(fnTest.Block(), k), func(in ssa.Instruction) bool { return in == ssa.Instruction(d) }, func(in ssa.Instruction) bool { _, r := in.(*ssa.Return); return r })
				ru.Check(okCall, "Dispatch/function-runs", w.IPos(fnTest), "a command that has a function always gets it called", "between the test that the command has a function and the call, Dispatch can return: the function is not invoked (exactly one user function must run)")
			}
		}
	}
	// no function: no user call, an error or help
	for _, b := range fn.Blocks {
		if len(b.Instrs) == 0 {
			continue
		}
		iff, ok := b.Instrs[len(b.Instrs)-1].(*ssa.If)
		if !ok {
			continue
		}
		for _, f := range condFacts(iff.Cond, true, iff) {
			if f.Y != nil && isNilConst(f.Y) && (f.Op == token.NEQ || f.Op == token.EQL) {
				if _, ok := loadOfFieldNamed(f.X, "CommandFn"); ok {
					k := 1
					if f.Op == token.EQL {
						k = 0
					}
					seen := ig.reachFrom(ig.edgeStart(b, k), nil)
					bad := false
					for i, s := range seen {
						if c, ok := ig.instrs[i].(ssa.CallInstruction); ok && s && calleeName(c) == nDynCommandFn {
							bad = true
						}
					}
					ru.Check(!bad, "Dispatch/no-function", w.IPos(iff), "without a function no user code runs", "a command function can be called on the CommandFn == nil edge")
				}
			}
		}
	}
}

func rC10Descent(w *World, r *Report) {
	ru := r.Rule("R10.3", "command descent: the cursor is reassigned at exactly one site, to the value of the cursor's ChildCommands entry whose key equals iterator.Value() (equality, no prefix), for a fresh plain token: dominated by the failed terminator test and the failed splitter test of the same token", 4)
	m := parserOrFail(w, ru)
	if m == nil {
		return
	}
	moves := 0
	for _, mv := range m.cursorMoves() {
		e, pred := mv.val, mv.pred
		moves++
		pos := w.IPos(pred.Instrs[len(pred.Instrs)-1])
		ru.Check(m.underCommandMatch(pred), "descent/equality", pos, "under key == iterator.Value() with key ranging over the cursor's ChildCommands", "the cursor moves without an exact match of the token against the cursor's command names (prefix match, other table, or unconditional)")
		// new node = value of the same range entry
		okVal := false
		if lk := m.commandLookupAt(pred); lk != nil {
			// direct lookup idiom: the new cursor is the value of that very lookup, in the cursor's own table
			if ex, ok := e.(*ssa.Extract); ok && ex.Index == 0 && ex.Tuple == ssa.Value(lk) {
				if b, ok := loadOfField(lk.X, m.fChildCommands); ok && b == ssa.Value(m.cursorPhi) {
					okVal = true
				}
			}
		}
		if ex, ok := e.(*ssa.Extract); ok && ex.Index == 2 {
			if nx, ok := ex.Tuple.(*ssa.Next); ok {
				if rg, ok := nx.Iter.(*ssa.Range); ok {
					if b, ok := loadOfField(rg.X, m.fChildCommands); ok && b == ssa.Value(m.cursorPhi) {
						// key compared comes from the same Next
						for _, f := range factsAt(pred) {
							if f.Op == token.EQL && f.Y != nil {
								for _, side := range []ssa.Value{f.X, f.Y} {
									if k, ok := side.(*ssa.Extract); ok && k.Index == 1 && k.Tuple == ex.Tuple {
										okVal = true
									}
								}
							}
						}
					}
				}
			}
		}
		ru.Check(okVal, "descent/target", pos, "new cursor = the table entry whose key matched", "the cursor is set to a node other than the matched command's")
		// after a descent the parse goes on with the next token at the new level (deeper commands and the command's own
		// options follow): no path from the move returns before the loop head is reached again
		{
			term := pred.Instrs[len(pred.Instrs)-1]
			seen := m.ig.reachFromE([]int{m.ig.idx[term]}, func(in ssa.Instruction) bool { return in == ssa.Instruction(m.mainNext) }, m.normalEdgeOK)
			stops := false
			for i, sn := range seen {
				if sn {
					if _, isRet := m.ig.instrs[i].(*ssa.Return); isRet {
						stops = true
					}
				}
			}
			ru.Check(!stops, "descent/continues", pos, "the next token is parsed at the new level", "the parser can stop right after selecting a command: what follows the command name (sub-commands, its options) is not interpreted")
		}
		// fresh plain token
		okTerm := m.termIf != nil && edgeDominates(m.termIf.Block(), 1-m.termTrue, pred)
		ru.Check(okTerm, "descent/not-terminator", pos, "only for tokens other than `--`", "a command can be selected by / after the terminator")
		okPlain := false
		for _, f := range factsAt(pred) {
			if f.Op == token.ILLEGAL && !f.Truth {
				if ex, ok := f.X.(*ssa.Extract); ok && ex.Index == 1 {
					if c, ok := ex.Tuple.(*ssa.Call); ok && calleeName(c) == nIsOption {
						if vc, ok := c.Call.Args[0].(*ssa.Call); ok && m.iterCall(vc, nIterValue) {
							okPlain = true
						}
					}
				}
			}
		}
		ru.Check(okPlain, "descent/plain-token", pos, "only for tokens the splitter does not classify as options", "command descent is not confined to plain tokens")
		// the token compared is the loop-head token: no look-ahead advance can precede the scan in the same iteration
		for _, n := range m.nextCalls {
			if n == m.mainNext {
				continue
			}
			seen := m.ig.reachFromE(m.ig.after(n), func(in ssa.Instruction) bool { return in == ssa.Instruction(m.mainNext) }, m.normalEdgeOK)
			if seen[m.ig.idx[pred.Instrs[len(pred.Instrs)-1]]] {
				ru.Bad("descent/fresh-token", pos, "a token consumed as an option value (advance at "+w.IPos(n)+") can still select a command")
			}
		}
	}
	if moves != 1 {
		ru.Bad("descent/sites", w.Pos(m.fn.Pos()), fmt.Sprintf("%d cursor reassignments, expected exactly one", moves))
	} else {
		ru.OK("descent/sites", w.Pos(m.fn.Pos()), "one cursor reassignment")
	}
	// the parser returns the cursor
	eachInstr(m.fn, func(in ssa.Instruction) {
		if ret, ok := in.(*ssa.Return); ok && !m.inCompletionOnly(in.Block()) {
			if isNilConst(ret.Results[2]) {
				ru.Check(m.isCursorValue(ret.Results[0]), "parser/returns-cursor", w.IPos(ret), "success return hands back the cursor", "the parser's success return does not return the node reached")
			}
		}
	})
}

func rC10FinalNode(w *World, r *Report) {
	ru := r.Rule("R10.4", "GetOpt.finalNode is written only by Parse (from the first result of the real parse) and by the fresh view built in Dispatch", 2)
	var f *types.Var = w.Field("getoptions", "GetOpt", "finalNode")
	if f == nil {
		ru.Undecided("anchor", "-", "field not found")
		return
	}
	for _, u := range w.fieldUses(f) {
		if u.Kind == "read" {
			continue
		}
		n := short(u.Fn)
		switch {
		case u.Kind == "write" && n == nParse:
			st := u.Instr.(*ssa.Store)
			good := false
			if ex, ok := st.Val.(*ssa.Extract); ok && ex.Index == 0 {
				if c, ok := ex.Tuple.(*ssa.Call); ok && calleeName(c) == nParseCLI {
					if s, ok := constString(c.Call.Args[0]); ok && s == "" {
						if b, ok := loadOfFieldNamed(c.Call.Args[1], "programTree"); ok && b == ssa.Value(u.Fn.Params[0]) {
							good = true
						}
					}
				}
			}
			ru.Check(good, "writer/Parse", w.IPos(st), "finalNode = node returned by parseCLIArgs(\"\", root, …)", "Parse stores something other than the parser's result node")
		case u.Kind == "write" && n == nDispatch:
			_, isAlloc := u.Addr.X.(*ssa.Alloc)
			ru.Check(isAlloc, "writer/Dispatch", w.IPos(u.Instr), "field of the fresh view", "Dispatch overwrites the selected node")
		case u.Kind == "write" && isFreshZeroInit(u):
			ru.Present("writer/"+n, w.IPos(u.Instr), "the zero value written out in a literal that creates the object")
		default:
			ru.Bad("writer/"+n, w.IPos(u.Instr), "unexpected "+u.Kind+" of finalNode")
		}
	}
}

func rC10CopyOptions(w *World, r *Report) {
	ru := r.Rule("R10.5", "options are shared with child commands by pointer: copyOptionsFromParent stores the parent's own record under the same key in each child's table and recurses into every child; NewCommand and HelpCommand both call it", 3)
	fn := w.Fn("getoptions.copyOptionsFromParent")
	if fn == nil {
		ru.Undecided("anchor", "-", "copyOptionsFromParent not found")
		return
	}
	fCO := w.Field("getoptions", "programTree", "ChildOptions")
	n := 0
	eachInstr(fn, func(in ssa.Instruction) {
		mu, ok := in.(*ssa.MapUpdate)
		if !ok {
			return
		}
		n++
		good := false
		kx, ok1 := mu.Key.(*ssa.Extract)
		vx, ok2 := mu.Value.(*ssa.Extract)
		if ok1 && ok2 && kx.Index == 1 && vx.Index == 2 && kx.Tuple == vx.Tuple {
			if nx, ok := kx.Tuple.(*ssa.Next); ok {
				if rg, ok := nx.Iter.(*ssa.Range); ok {
					if b, ok := loadOfField(rg.X, fCO); ok && b == ssa.Value(fn.Params[0]) {
						good = true
					}
				}
			}
		}
		// the help command of the level never receives the options (its required ones would gate `prog help`)
		notHelpAt := func(blk *ssa.BasicBlock, child ssa.Value) bool {
			for _, f := range factsAt(blk) {
				if f.Op != token.NEQ || f.Y == nil {
					continue
				}
				x, y := f.X, f.Y
				if _, ok := loadOfFieldNamed(x, "HelpCommandName"); ok {
					x, y = y, x
				}
				cb, ok := loadOfFieldNamed(x, "Name")
				if !ok || (child != nil && cb != child) {
					continue
				}
				if b, ok := loadOfFieldNamed(y, "HelpCommandName"); ok && b == ssa.Value(fn.Params[0]) {
					return true
				}
			}
			return false
		}
		// the child whose table is written
		var tableOwner ssa.Value
		if ob, ok := loadOfField(mu.Map, fCO); ok {
			tableOwner = ob
		}
		helpExcluded := notHelpAt(mu.Block(), tableOwner)
		if !helpExcluded {
			// the children were filtered into a list first: every element of that list was put there under the test
			if child, ok := loadOfField(mu.Map, fCO); ok {
				if ld, ok := child.(*ssa.UnOp); ok && ld.Op == token.MUL {
					if ia, ok := ld.X.(*ssa.IndexAddr); ok {
						if els, spreads, ok := elementsOf(ia.X, map[ssa.Value]bool{}); ok && len(spreads) == 0 && len(els) > 0 {
							all := true
							for _, e := range els {
								sites := 0
								eachInstr(fn, func(i2 ssa.Instruction) {
									st, ok := i2.(*ssa.Store)
									if !ok || st.Val != e {
										return
									}
									if _, isLit := rootOfAddr(st.Addr).(*ssa.Alloc); !isLit {
										return
									}
									sites++
									if !notHelpAt(st.Block(), e) {
										all = false
									}
								})
								if sites == 0 {
									all = false
								}
							}
							helpExcluded = all
						}
					}
				}
			}
		}
		ru.Check(helpExcluded, "copy/help-command-excluded", w.IPos(mu), "copy guarded by child.Name != parent.HelpCommandName", "the help command inherits the level's options: a missing required option would turn `prog help` into an error instead of the help text")
		_, isChildTable := loadOfField(mu.Map, fCO)
		ru.Check(good && isChildTable, "copy/same-record", w.IPos(mu), "child.ChildOptions[k] = v for (k, v) of the parent's table", "children do not receive the parent's own record under the same name (a copy would not see parsed values)")
	})
	// the same copy written as maps.Copy(child.ChildOptions, parent.ChildOptions): every (key, record) of the parent
	for _, c := range allCalls(fn) {
		if calleeBase(c) != "maps.Copy" || len(c.Common().Args) != 2 {
			continue
		}
		n++
		dst, src := c.Common().Args[0], c.Common().Args[1]
		_, isChildTable := loadOfField(dst, fCO)
		b, fromParent := loadOfField(src, fCO)
		ru.Check(isChildTable && fromParent && b == ssa.Value(fn.Params[0]), "copy/same-record", w.IPos(c), "maps.Copy(child.ChildOptions, parent.ChildOptions)", "children do not receive the parent's own record under the same name (a copy would not see parsed values)")
		helpOut := false
		for _, f := range factsAt(c.Block()) {
			if f.Op != token.NEQ || f.Y == nil {
				continue
			}
			x, y := f.X, f.Y
			if _, ok := loadOfFieldNamed(x, "HelpCommandName"); ok {
				x, y = y, x
			}
			if _, ok := loadOfFieldNamed(x, "Name"); !ok {
				continue
			}
			if pb, ok := loadOfFieldNamed(y, "HelpCommandName"); ok && pb == ssa.Value(fn.Params[0]) {
				helpOut = true
			}
		}
		ru.Check(helpOut, "copy/help-command-excluded", w.IPos(c), "copy guarded by child.Name != parent.HelpCommandName", "the help command inherits the level's options: a missing required option would turn `prog help` into an error instead of the help text")
	}
	if n == 0 {
		ru.Bad("copy/same-record", w.Pos(fn.Pos()), "no copy into the children's tables")
	}
	// the only ways a child is skipped: it is the help command, or it opted out itself through UnsetOptions
	if f := w.Field("getoptions", "programTree", "skipOptionsCopy"); f != nil {
		for _, u := range w.fieldUses(f) {
			if u.Kind != "write" {
				continue
			}
			st := u.Instr.(*ssa.Store)
			c, isC := st.Val.(*ssa.Const)
			ok := short(u.Fn) == "(*getoptions.GetOpt).UnsetOptions" && isC && c.Value != nil && c.Value.String() == "true"
			ru.Check(ok, "skip-flag/writer/"+short(u.Fn), w.IPos(st), "set only by UnsetOptions on the wrapper itself", "the opt-out from option inheritance spreads to other nodes: their commands lose the options of their ancestors")
		}
	}
	rec := len(callsTo(fn, "getoptions.copyOptionsFromParent")) > 0
	ru.Check(rec, "copy/recursive", w.Pos(fn.Pos()), "recurses into the children", "grand-children do not inherit")
	// every child is recursed into (a child that receives nothing itself still hands its own options down), and the
	// copy loops are only left when exhausted
	ig := buildIG(fn)
	for _, c := range callsTo(fn, "getoptions.copyOptionsFromParent") {
		var h *ssa.BasicBlock
		for _, cand := range loopHeaders(fn) {
			if naturalLoop(cand)[c.Block()] && (h == nil || naturalLoop(h)[cand]) {
				h = cand
			}
		}
		if h == nil {
			ru.Bad("copy/recursive/every-child", w.IPos(c), "the recursive call is not in a loop over the children")
			continue
		}
		loop := naturalLoop(h)
		// the descent happens on every call: no path from the entry to a return avoids the loop over the children
		// (a flag that switches the descent off - "only refresh one level" - leaves the commands below the siblings
		// without the options declared since they were created); returning early for a node without children is fine
		noChildren := func(term ssa.Instruction, k int) bool {
			iff, isIf := term.(*ssa.If)
			if !isIf {
				return true
			}
			for _, f := range condFacts(iff.Cond, k == 0, iff) {
				if f.Y == nil {
					continue
				}
				if lc, ok := lenOf(f.X); ok {
					if _, isCC := loadOfFieldNamed(lc, "ChildCommands"); isCC {
						if k0, ok := constInt(f.Y); ok && ((f.Op == token.EQL && k0 == 0) || (f.Op == token.LEQ && k0 == 0) || (f.Op == token.LSS && k0 == 1)) {
							return false
						}
					}
				}
			}
			return true
		}
		avoid := ig.reachFromE([]int{0}, func(in ssa.Instruction) bool { return in == h.Instrs[0] }, noChildren)
		always := true
		for i, sn := range avoid {
			if _, isRet := ig.instrs[i].(*ssa.Return); isRet && sn {
				always = false
			}
		}
		ru.Check(always, "copy/recursive/unconditional", w.IPos(c), "every call descends into the children", "the descent into the children can be switched off (a flag, an early return): after `NewCommand` the commands below the siblings miss the options declared since they were created")
		var starts []int
		for _, s := range h.Succs {
			if loop[s] {
				starts = append(starts, ig.first[s])
			}
		}
		ok, _ := ig.mustPass(starts, func(in ssa.Instruction) bool { return in == ssa.Instruction(c) }, func(in ssa.Instruction) bool { return in == h.Instrs[0] })
		ru.Check(ok, "copy/recursive/every-child", w.IPos(c), "every iteration over the children recurses", "some children are not recursed into (a `continue` meant for the copy also skips the descent): the commands below them inherit nothing, not even that child's own options")
	}
	eachInstr(fn, func(in ssa.Instruction) {
		mu, ok := in.(*ssa.MapUpdate)
		if !ok {
			return
		}
		early := ""
		for _, h := range loopHeaders(fn) {
			loop := naturalLoop(h)
			if !loop[mu.Block()] {
				continue
			}
			for b := range loop {
				if b == h {
					continue
				}
				for _, s := range b.Succs {
					if !loop[s] {
						early = w.IPos(b.Instrs[len(b.Instrs)-1])
					}
				}
			}
		}
		ru.Check(early == "", "copy/loops-exhausted", w.IPos(mu), "the copy loops end only when every option and every child was visited", "a copy loop is left early (at "+early+"): the children (or options) after that point are skipped, depending on map order")
	})
	for _, caller := range []string{"(*getoptions.GetOpt).NewCommand", "(*getoptions.GetOpt).HelpCommand"} {
		cf := w.Fn(caller)
		ok := cf != nil && len(callsTo(cf, "getoptions.copyOptionsFromParent")) > 0
		ru.Check(ok, "copy/caller/"+caller, "-", "calls copyOptionsFromParent", caller+" does not propagate options to the children")
	}
}

// ------------------------------------------------------------------ C11

// dispatchCall returns the single CommandFn call in Dispatch.
func dispatchCall(fn *ssa.Function) ssa.CallInstruction {
	for _, c := range allCalls(fn) {
		if calleeName(c) == nDynCommandFn {
			return c
		}
	}
	return nil
}

// gateInfo describes a required gate found in a function: a loop invoking CheckRequired on the node's options.
type gateInfo struct {
	fn      *ssa.Function
	check   *ssa.Call
	node    ssa.Value // the node whose ChildOptions are visited
	problem string
}

// findGate analyses fn as a required gate over one of its *programTree values.
func findGate(w *World, fn *ssa.Function) *gateInfo {
	calls := callsTo(fn, "(*option.Option).CheckRequired")
	if len(calls) == 0 {
		return nil
	}
	g := &gateInfo{fn: fn, check: calls[0].(*ssa.Call)}
	if len(calls) != 1 {
		g.problem = "more than one CheckRequired call"
		return g
	}
	if !blockInCycle(g.check.Block()) {
		g.problem = "CheckRequired is not called in a loop over the options"
		return g
	}
	fCO := w.Field("getoptions", "programTree", "ChildOptions")
	// receiver provenance: must come from ChildOptions of a node
	p := NewProv(w, fn).Slice(g.check.Call.Args[0])
	for _, s := range p.Srcs {
		if s.Kind == "field" && s.Field == fCO {
			if ld, ok := s.V.(*ssa.UnOp); ok {
				if fa, ok := ld.X.(*ssa.FieldAddr); ok {
					g.node = fa.X
				}
			}
		}
	}
	if g.node == nil {
		g.problem = "the records checked do not come from a node's ChildOptions"
		return g
	}
	// every key is visited: each range over the option table (directly or to collect names) has an unconditional body,
	// and a names slice, if used, is only sorted before being ranged
	for _, b := range fn.Blocks {
		for _, in := range b.Instrs {
			rg, ok := in.(*ssa.Range)
			if !ok {
				continue
			}
			if _, isTable := loadOfField(rg.X, fCO); !isTable {
				continue
			}
			// find the loop body block: successor on the ok edge of the Next test
			for _, ref := range *rg.Referrers() {
				nx, ok := ref.(*ssa.Next)
				if !ok {
					continue
				}
				hb := nx.Block()
				iff, ok := hb.Instrs[len(hb.Instrs)-1].(*ssa.If)
				if !ok {
					continue
				}
				body := hb.Succs[0]
				_ = iff
				// the body must reach the header again on every path without returning, except through the failing check
				for _, bi := range body.Instrs {
					if c, ok := bi.(*ssa.Call); ok && calleeName(c) == "builtin:append" {
						_ = c
					}
				}
				// no conditional `continue` skipping keys: every If inside the loop body region must be the err test
				loop := naturalLoop(hb)
				for lb := range loop {
					if lb == hb || len(lb.Instrs) == 0 {
						continue
					}
					if i2, ok := lb.Instrs[len(lb.Instrs)-1].(*ssa.If); ok {
						isErrTest := false
						for _, f := range condFacts(i2.Cond, true, i2) {
							if f.Y != nil && isNilConst(f.Y) && f.X == ssa.Value(g.check) {
								isErrTest = true
							}
						}
						if !isErrTest {
							g.problem = "a condition inside the scan can skip options (" + w.IPos(i2) + ")"
						}
					}
				}
			}
		}
	}
	// the loop that calls CheckRequired must not skip records: inside its natural loop the only conditions allowed are
	// the error test and an alias filter (key compared with the record's Name) and whatever that filter dominates
	{
		var hdr *ssa.BasicBlock
		for _, b := range fn.Blocks {
			if b.Dominates(g.check.Block()) && naturalLoop(b)[g.check.Block()] && len(naturalLoop(b)) > 1 {
				if hdr == nil || hdr.Dominates(b) {
					hdr = b
				}
			}
		}
		if hdr != nil {
			loop := naturalLoop(hdr)
			var aliasEdges []struct {
				b *ssa.BasicBlock
				k int
			}
			for lb := range loop {
				if lb == hdr || len(lb.Instrs) == 0 {
					continue
				}
				i2, ok := lb.Instrs[len(lb.Instrs)-1].(*ssa.If)
				if !ok {
					continue
				}
				for _, f := range condFacts(i2.Cond, true, i2) {
					if f.Y != nil && (f.Op == token.NEQ || f.Op == token.EQL) {
						_, n1 := loadOfFieldNamed(f.X, "Name")
						_, n2 := loadOfFieldNamed(f.Y, "Name")
						if n1 || n2 {
							k := 0
							if f.Op == token.EQL {
								k = 1
							}
							aliasEdges = append(aliasEdges, struct {
								b *ssa.BasicBlock
								k int
							}{lb, k})
						}
					}
				}
			}
			for lb := range loop {
				if lb == hdr || len(lb.Instrs) == 0 {
					continue
				}
				i2, ok := lb.Instrs[len(lb.Instrs)-1].(*ssa.If)
				if !ok {
					continue
				}
				allowed := false
				for _, f := range condFacts(i2.Cond, true, i2) {
					if f.Y != nil && isNilConst(f.Y) && f.X == ssa.Value(g.check) {
						allowed = true
					}
				}
				for _, ae := range aliasEdges {
					if ae.b == lb || edgeDominates(ae.b, ae.k, lb) {
						allowed = true
					}
				}
				if !allowed {
					g.problem = "a condition inside the required scan can skip options (" + w.IPos(i2) + ")"
				}
			}
		}
	}
	ig := buildIG(fn)
	// a gate function answers nil only after the scan: no flag or shortcut lets it skip the node's table (other than
	// the table being empty). A "this node declares nothing required" marker is wrong for inherited options.
	if _, isParam := g.node.(*ssa.Parameter); isParam {
		var hdr *ssa.BasicBlock
		for _, b := range fn.Blocks {
			if b.Dominates(g.check.Block()) && naturalLoop(b)[g.check.Block()] && len(naturalLoop(b)) > 1 {
				if hdr == nil || hdr.Dominates(b) {
					hdr = b
				}
			}
		}
		if hdr != nil {
			emptyTable := func(term ssa.Instruction, k int) bool {
				iff, isIf := term.(*ssa.If)
				if !isIf {
					return true
				}
				for _, f := range condFacts(iff.Cond, k == 0, iff) {
					if f.Y == nil {
						continue
					}
					if lc, ok := lenOf(f.X); ok {
						if _, isCO := loadOfField(lc, fCO); isCO {
							if k0, ok := constInt(f.Y); ok && ((f.Op == token.EQL && k0 == 0) || (f.Op == token.LEQ && k0 == 0) || (f.Op == token.LSS && k0 == 1)) {
								return false
							}
						}
					}
				}
				return true
			}
			seen := ig.reachFromE([]int{0}, func(in ssa.Instruction) bool { return in == hdr.Instrs[0] }, emptyTable)
			for i, sn := range seen {
				if ret, ok := ig.instrs[i].(*ssa.Return); ok && sn && len(ret.Results) > 0 && isNilConst(ret.Results[len(ret.Results)-1]) {
					g.problem = "the gate can answer nil without scanning the node's options (at " + w.IPos(ret) + "): options the node inherited, or that were made required later, are not enforced"
				}
			}
		}
	}
	// error edge returns non-nil wrapping ErrorParsing with %w
	var errIf *ssa.If
	errK := 0
	for _, ref := range *g.check.Referrers() {
		if bo, ok := ref.(*ssa.BinOp); ok && (bo.Op == token.NEQ || bo.Op == token.EQL) {
			for _, r2 := range *bo.Referrers() {
				if iff, ok := r2.(*ssa.If); ok {
					errIf = iff
					if bo.Op == token.EQL {
						errK = 1
					}
				}
			}
		}
	}
	if errIf == nil {
		g.problem = "the result of CheckRequired is not tested"
		return g
	}
	seen := ig.reachFrom(ig.edgeStart(errIf.Block(), errK), nil)
	nret := 0
	for i, s := range seen {
		if !s {
			continue
		}
		if ret, ok := ig.instrs[i].(*ssa.Return); ok {
			nret++
			last := ret.Results[len(ret.Results)-1]
			if isNilConst(last) {
				g.problem = "a missing required option does not produce an error at " + w.IPos(ret)
				continue
			}
			c, ok := last.(*ssa.Call)
			if !ok || calleeName(c) != "fmt.Errorf" {
				g.problem = "the error is not built with fmt.Errorf(\"%w…\", ErrorParsing, …)"
				continue
			}
			format, _ := constString(c.Call.Args[0])
			els, _, _ := elementsOf(c.Call.Args[1], map[ssa.Value]bool{})
			wrapsParsing := false
			hasInner := false
			for i, e := range els {
				v := e
				if mi, ok := v.(*ssa.MakeInterface); ok {
					v = mi.X
				}
				if ci, ok := v.(*ssa.ChangeInterface); ok {
					v = ci.X
				}
				if i == 0 && isLoadOfGlobal(v, "getoptions.ErrorParsing") {
					wrapsParsing = true
				}
				if c2, ok := v.(*ssa.Call); ok && strings.HasSuffix(calleeName(c2), ".Error") {
					if c2.Call.Value == ssa.Value(g.check) || (len(c2.Call.Args) > 0 && c2.Call.Args[0] == ssa.Value(g.check)) {
						hasInner = true
					}
				}
				if v == ssa.Value(g.check) {
					hasInner = true
				}
			}
			if !strings.HasPrefix(format, "%w") || !wrapsParsing {
				g.problem = "the error does not wrap ErrorParsing with %w (errors.Is(err, ErrorParsing) would fail)"
			} else if !hasInner {
				g.problem = "the error drops the inner (custom) message"
			}
		}
	}
	if nret == 0 {
		g.problem = "the failing check does not return"
	}
	return g
}

// inlineGateEntry: for a gate that is written out in the function itself (a loop calling CheckRequired), the point
// every execution of the gate passes, whatever the number of options: the first instruction of the outermost loop
// of the gate code that contains the call (the loop may run zero times).
func inlineGateEntry(g *gateInfo) ssa.Instruction {
	b := g.check.Block()
	var best *ssa.BasicBlock
	for _, h := range loopHeaders(g.fn) {
		if naturalLoop(h)[b] && (best == nil || len(naturalLoop(h)) < len(naturalLoop(best))) {
			best = h
		}
	}
	if best == nil || len(best.Instrs) == 0 {
		return g.check
	}
	return best.Instrs[0]
}

func rC11DispatchOrder(w *World, r *Report) {
	ru := r.Rule("R11.1", "must-pass-through in Dispatch: every path from entry to the CommandFn call evaluates the help test, then the required gate, and reaches the call only on the gate's nil edge", 2)
	fn := w.Fn(nDispatch)
	if fn == nil {
		ru.Undecided("anchor", "-", "Dispatch not found")
		return
	}
	d := dispatchCall(fn)
	if d == nil {
		ru.Undecided("call", w.Pos(fn.Pos()), "CommandFn call not found")
		return
	}
	ig := buildIG(fn)
	// the gate: inline or helper
	var gateInstr ssa.Instruction
	var gateRes ssa.Value
	if g := findGate(w, fn); g != nil {
		gateInstr = inlineGateEntry(g)
	} else {
		for _, c := range allCalls(fn) {
			callee := c.Common().StaticCallee()
			if callee == nil || callee.Blocks == nil || w.PkgOfFn(callee) == nil {
				continue
			}
			if g := findGate(w, callee); g != nil {
				gateInstr = c
				gateRes = c.Value()
				// the helper is given the final node
				okArg := false
				for _, a := range c.Common().Args {
					if b, ok := loadOfFieldNamed(a, "finalNode"); ok && b == ssa.Value(fn.Params[0]) {
						okArg = true
					}
				}
				ru.Check(okArg, "gate/argument", w.IPos(c), "the gate checks the selected node", "the required gate is not applied to the selected command's node")
			}
		}
	}
	if gateInstr == nil {
		ru.Bad("gate", w.Pos(fn.Pos()), "no required-option gate in Dispatch: a command would run with missing required options")
		return
	}
	ok, _ := ig.mustPass([]int{0}, func(in ssa.Instruction) bool { return in == gateInstr }, func(in ssa.Instruction) bool { return in == d })
	ru.Check(ok, "order/gate-before-call", w.IPos(gateInstr), "every path to the command function passes the required gate", "the command function is reachable without passing the required gate")
	if gateRes != nil {
		onNil := false
		for _, f := range factsAt(d.Block()) {
			if f.Op == token.EQL && f.Y != nil && isNilConst(f.Y) && f.X == gateRes {
				onNil = true
			}
		}
		ru.Check(onNil, "order/call-on-nil-edge", w.IPos(d), "call only when the gate returned nil", "the command function runs even when the gate reported a missing option")
		// non-nil edge returns that error
		retOK := false
		eachInstr(fn, func(in ssa.Instruction) {
			if ret, ok := in.(*ssa.Return); ok && ret.Results[0] == gateRes {
				retOK = true
			}
		})
		ru.Check(retOK, "order/error-returned", w.IPos(gateInstr), "the gate's error is returned", "the gate's error is not returned")
	}
	// help test before the gate
	helpIf := helpTest(fn)
	if helpIf == nil {
		ru.Bad("order/help-test", w.Pos(fn.Pos()), "no help test in Dispatch")
		return
	}
	// (when no help command is declared, HelpCommandName == "", there is nothing to test)
	seenH := ig.reachFromE([]int{0}, func(in ssa.Instruction) bool { return in == ssa.Instruction(helpIf) }, func(term ssa.Instruction, k int) bool {
		if iff, ok := term.(*ssa.If); ok {
			for _, f := range condFacts(iff.Cond, k == 0, iff) {
				if f.Op == token.EQL && f.Y != nil {
					if s, ok := constString(f.Y); ok && s == "" {
						if _, ok := loadOfFieldNamed(f.X, "HelpCommandName"); ok {
							return false
						}
					}
				}
			}
		}
		return true
	})
	ok2 := !seenH[ig.idx[gateInstr]]
	ru.Check(ok2, "order/help-before-gate", w.IPos(helpIf), "help is tested before the required gate", "the required gate can run before help is tested: `--help` would be answered with a missing-option error")
	// every way out of Dispatch other than the answer to a help request passes the gate (a command without a
	// function of its own is no exception: a missing required option is reported, not answered with landing help)
	hk := helpEdge(helpIf)
	noGate := ig.reachFromE([]int{0}, func(in ssa.Instruction) bool { return in == gateInstr }, func(term ssa.Instruction, k int) bool {
		return !(term == ssa.Instruction(helpIf) && k == hk)
	})
	badRet := ""
	for i, in := range ig.instrs {
		if _, isRet := in.(*ssa.Return); isRet && noGate[i] {
			badRet = w.IPos(in)
		}
	}
	ru.Check(badRet == "", "order/gate-before-every-exit", w.IPos(gateInstr), "every exit except the help answer passes the required gate", "Dispatch can return (at "+badRet+") without having checked the required options although help was not requested: a missing required option goes unreported for that kind of command")
}

// helpTest finds the If whose condition is gopt.Called(finalNode.HelpCommandName).
func helpTest(fn *ssa.Function) *ssa.If {
	var out *ssa.If
	for _, b := range fn.Blocks {
		if len(b.Instrs) == 0 {
			continue
		}
		iff, ok := b.Instrs[len(b.Instrs)-1].(*ssa.If)
		if !ok {
			continue
		}
		c := iff.Cond
		if u, ok := c.(*ssa.UnOp); ok && u.Op == token.NOT {
			c = u.X
		}
		if call, ok := c.(*ssa.Call); ok && isHelpCalledPredicate(call, 0) {
			out = iff
		}
		// the answer kept in a variable: `called := name != "" && gopt.Called(name)` - false where the predicate
		// was not evaluated, the predicate's result elsewhere
		if phi, ok := c.(*ssa.Phi); ok && out == nil {
			n, good := 0, true
			for _, e := range phi.Edges {
				if k, isC := e.(*ssa.Const); isC && k.Value != nil && k.Value.String() == "false" {
					continue
				}
				if call, isCall := e.(*ssa.Call); isCall && isHelpCalledPredicate(call, 0) {
					n++
					continue
				}
				good = false
			}
			if good && n > 0 {
				out = iff
			}
		}
	}
	return out
}

// helpEdge returns the successor index taken when help was called.
func helpEdge(iff *ssa.If) int {
	if u, ok := iff.Cond.(*ssa.UnOp); ok && u.Op == token.NOT {
		return 1
	}
	return 0
}

func rC11Gate(w *World, r *Report) {
	ru := r.Rule("R11.2", "the required gate visits every option of the node (no filter), returns on the first failure an error built as fmt.Errorf(\"%w…\", ErrorParsing, inner message) and nil only after the whole scan", 1)
	n := 0
	for _, fn := range w.Funcs {
		g := findGate(w, fn)
		if g == nil {
			continue
		}
		n++
		if g.problem == "" {
			ru.OK("gate/"+short(fn), w.IPos(g.check), "scans all options, wraps ErrorParsing, keeps the inner message")
		} else {
			ru.Bad("gate/"+short(fn), w.IPos(g.check), g.problem)
		}
		// nil return only after the loop: every nil return is not inside the loop
		loopHdr := g.check.Block()
		_ = loopHdr
	}
	if n == 0 {
		ru.Bad("gate", "-", "no function invokes CheckRequired over a node's options")
	}
}

func rC11ParseGate(w *World, r *Report) {
	ru := r.Rule("R11.3", "Parse: when the final node is the root and help was not called, every success return passes the required gate applied to that node", 2)
	fn := w.Fn(nParse)
	if fn == nil {
		ru.Undecided("anchor", "-", "Parse not found")
		return
	}
	ig := buildIG(fn)
	var gate ssa.Instruction
	if g := findGate(w, fn); g != nil {
		gate = inlineGateEntry(g)
	} else {
		for _, c := range allCalls(fn) {
			callee := c.Common().StaticCallee()
			if callee != nil && callee.Blocks != nil && w.PkgOfFn(callee) != nil && findGate(w, callee) != nil {
				gate = c
				res := c.Value()
				// error returned
				retOK := false
				eachInstr(fn, func(in ssa.Instruction) {
					if ret, ok := in.(*ssa.Return); ok && len(ret.Results) == 2 && ret.Results[1] == ssa.Value(res) && isNilConst(ret.Results[0]) {
						retOK = true
					}
				})
				ru.Check(retOK, "Parse/gate-error-returned", w.IPos(c), "(nil, err) returned when the gate fails", "Parse does not return the gate's error with a nil remaining list")
			}
		}
	}
	if gate == nil {
		ru.Bad("Parse/gate", w.Pos(fn.Pos()), "Parse has no required-option gate for the root command")
		return
	}
	help := helpTest(fn)
	// prune: Parent != nil edges, help-called edge, completion edge, error returns
	seen := ig.reachFromE([]int{0}, func(in ssa.Instruction) bool { return in == gate }, func(term ssa.Instruction, k int) bool {
		iff, ok := term.(*ssa.If)
		if !ok {
			return true
		}
		if help != nil && iff == help && k == helpEdge(help) {
			return false
		}
		for _, f := range condFacts(iff.Cond, k == 0, iff) {
			if f.Y != nil && isNilConst(f.Y) && f.Op == token.NEQ {
				if _, ok := loadOfFieldNamed(f.X, "Parent"); ok {
					return false
				}
			}
			// COMP_LINE != "": completion
			if f.Y != nil && f.Op == token.NEQ {
				if s, ok := constString(f.Y); ok && s == "" {
					if c, ok := f.X.(*ssa.Call); ok && calleeName(c) == "os.Getenv" {
						return false
					}
				}
			}
		}
		return true
	})
	var wit ssa.Instruction
	for i, s := range seen {
		if ret, ok := ig.instrs[i].(*ssa.Return); ok && s && len(ret.Results) == 2 && isNilConst(ret.Results[1]) && !isNilConst(ret.Results[0]) {
			wit = ret
		}
	}
	if wit == nil {
		ru.OK("Parse/gate-before-success", w.IPos(gate), "root, no help ⇒ the gate is passed before any success return")
	} else {
		ru.Bad("Parse/gate-before-success", w.IPos(wit), "Parse can succeed for the root command without checking required options")
	}
	// the gate must not run when help was called
	if help != nil {
		s2 := ig.reachFrom(ig.edgeStart(help.Block(), helpEdge(help)), nil)
		ru.Check(!s2[ig.idx[gate]], "Parse/help-bypasses-gate", w.IPos(help), "help called ⇒ required options are not reported", "with help requested Parse still reports missing required options")
	} else {
		ru.Bad("Parse/help-test", w.Pos(fn.Pos()), "Parse does not test for help before the required gate")
	}
}

func rC11HelpEdges(w *World, r *Report) {
	ru := r.Rule("R11.4", "help edges: in Dispatch the help-called edge writes helpOutput(finalNode) to Writer and returns ErrorHelpCalled without reaching the command function; runHelp returns ErrorHelpCalled on every path that prints help and an error otherwise", 2)
	fn := w.Fn(nDispatch)
	if fn != nil {
		help := helpTest(fn)
		d := dispatchCall(fn)
		if help == nil || d == nil {
			ru.Bad("Dispatch/help-edge", w.Pos(fn.Pos()), "help test or command call not found")
		} else {
			ig := buildIG(fn)
			seen := ig.reachFrom(ig.edgeStart(help.Block(), helpEdge(help)), nil)
			var problems []string
			printed := false
			for i, s := range seen {
				if !s {
					continue
				}
				in := ig.instrs[i]
				if in == ssa.Instruction(d) {
					problems = append(problems, "the command function is reachable after help was requested")
				}
				if c, ok := in.(*ssa.Call); ok && strings.HasPrefix(calleeName(c), "fmt.Fprint") && isLoadOfGlobal(c.Call.Args[0], "getoptions.Writer") {
					p := NewProv(w, fn)
					p.opaque["getoptions.helpOutput"] = true
					p.Slice(c.Call.Args[1])
					for _, o := range p.Ops {
						if o.Kind == "call:getoptions.helpOutput" {
							hc := o.Instr.(*ssa.Call)
							if b, ok := loadOfFieldNamed(hc.Call.Args[0], "finalNode"); ok && b == ssa.Value(fn.Params[0]) {
								printed = true
							}
						}
					}
				}
				if ret, ok := in.(*ssa.Return); ok && !isLoadOfGlobal(ret.Results[0], "getoptions.ErrorHelpCalled") {
					problems = append(problems, "the help edge does not return ErrorHelpCalled")
				}
			}
			if !printed {
				problems = append(problems, "the help of the selected level is not written to Writer")
			}
			if len(problems) == 0 {
				ru.OK("Dispatch/help-edge", w.IPos(help), "prints helpOutput(finalNode) to Writer, returns ErrorHelpCalled")
			} else {
				ru.Bad("Dispatch/help-edge", w.IPos(help), strings.Join(problems, "; "))
			}
		}
	}
	rh := w.Fn("getoptions.runHelp")
	if rh == nil {
		ru.Undecided("runHelp", "-", "not found")
		return
	}
	ig := buildIG(rh)
	for _, c := range allCalls(rh) {
		if !strings.HasPrefix(calleeName(c), "fmt.Fprint") {
			continue
		}
		seen := ig.reachFrom(ig.after(c), nil)
		good := true
		for i, s := range seen {
			if ret, ok := ig.instrs[i].(*ssa.Return); ok && s && !isLoadOfGlobal(ret.Results[0], "getoptions.ErrorHelpCalled") {
				// returns reachable only by looping back and failing are errors: accept non-nil
				if c2, ok := ret.Results[0].(*ssa.Call); ok && calleeName(c2) == "fmt.Errorf" {
					continue
				}
				good = false
			}
		}
		ru.Check(good && isLoadOfGlobal(c.Common().Args[0], "getoptions.Writer"), "runHelp/print", w.IPos(c), "print to Writer ⇒ ErrorHelpCalled", "runHelp prints help without returning ErrorHelpCalled (Dispatch would report success or run on)")
	}
	eachInstr(rh, func(in ssa.Instruction) {
		if ret, ok := in.(*ssa.Return); ok && isNilConst(ret.Results[0]) {
			ru.Bad("runHelp/nil-return", w.IPos(ret), "runHelp can return nil")
		}
	})
}

func rC11CheckRequired(w *World, r *Report) {
	ru := r.Rule("R11.6", "finite evaluation of CheckRequired over (IsRequired, Called): non-nil exactly for (true, false); both the default and the custom-message arm wrap ErrorMissingRequiredOption with %w, the custom arm carries IsRequiredErr", 4)
	fn := w.Fn("(*option.Option).CheckRequired")
	if fn == nil {
		ru.Undecided("anchor", "-", "CheckRequired not found")
		return
	}
	ig := buildIG(fn)
	for _, isReq := range []bool{false, true} {
		for _, called := range []bool{false, true} {
			edgeOK := func(term ssa.Instruction, k int) bool {
				iff, ok := term.(*ssa.If)
				if !ok {
					return true
				}
				for _, f := range condFacts(iff.Cond, k == 0, iff) {
					if f.Op != token.ILLEGAL {
						continue
					}
					if _, ok := loadOfFieldNamed(f.X, "IsRequired"); ok && f.Truth != isReq {
						return false
					}
					if _, ok := loadOfFieldNamed(f.X, "Called"); ok && f.Truth != called {
						return false
					}
				}
				return true
			}
			seen, taken := ig.reachEdges([]int{0}, nil, edgeOK)
			nilRet, nonNil := 0, 0
			wraps := true
			for i, s := range seen {
				ret, ok := ig.instrs[i].(*ssa.Return)
				if !ok || !s {
					continue
				}
				// a single exit merges the cases in a phi: only the operands of the edges taken under this valuation count
				for _, rv := range valuesOverEdges(ret.Results[0], taken, map[ssa.Value]bool{}) {
					if isNilConst(rv) {
						nilRet++
						continue
					}
					nonNil++
					c, ok := rv.(*ssa.Call)
					if !ok || calleeName(c) != "fmt.Errorf" {
						wraps = false
						continue
					}
					p := NewProv(w, fn).Slice(c.Call.Args[0])
					hasW := false
					for _, s := range p.Srcs {
						if str, ok := constString(s.V); ok && strings.HasPrefix(str, "%w") {
							hasW = true
						}
					}
					els, _, _ := elementsOf(c.Call.Args[1], map[ssa.Value]bool{})
					first := false
					if len(els) > 0 {
						v := els[0]
						if mi, ok := v.(*ssa.ChangeInterface); ok {
							v = mi.X
						}
						if mi, ok := v.(*ssa.MakeInterface); ok {
							v = mi.X
						}
						first = isLoadOfGlobal(v, "option.ErrorMissingRequiredOption")
					}
					if !hasW || !first {
						wraps = false
					}
				}
			}
			key := fmt.Sprintf("CheckRequired/IsRequired=%v,Called=%v", isReq, called)
			want := isReq && !called
			switch {
			case want && (nilRet > 0 || nonNil == 0):
				ru.Bad(key, w.Pos(fn.Pos()), "a required option that was not called is accepted")
			case want && !wraps:
				ru.Bad(key, w.Pos(fn.Pos()), "the error does not wrap ErrorMissingRequiredOption with %w")
			case !want && nonNil > 0:
				ru.Bad(key, w.Pos(fn.Pos()), "an error is reported although the option is not required or was supplied")
			default:
				ru.OK(key, w.Pos(fn.Pos()), fmt.Sprintf("returns %s", map[bool]string{true: "a wrapped error", false: "nil"}[want]))
			}
		}
	}
	// no user supplied text is used as a format string
	for _, c := range callsTo(fn, "fmt.Errorf") {
		p := NewProv(w, fn).Slice(c.Common().Args[0])
		bad := false
		for _, s := range p.Srcs {
			if s.Kind == "field" {
				bad = true
			}
		}
		ru.Check(!bad, "CheckRequired/format", w.IPos(c), "format built from constants / text package variables", "the custom required message is used as a printf format: a '%' in it garbles the message")
	}
	// custom message arm uses IsRequiredErr
	uses := false
	for _, c := range callsTo(fn, "fmt.Errorf") {
		if mentionsFieldArgs(w, fn, c.(*ssa.Call), "IsRequiredErr") {
			uses = true
		}
	}
	ru.Check(uses, "CheckRequired/custom-message", w.Pos(fn.Pos()), "the custom message is carried", "the custom required message is never used")
}

// ------------------------------------------------------------------ C12

func rC12GetenvCallers(w *World, r *Report) {
	ru := r.Rule("R12.1", "os.Getenv / os.LookupEnv / os.Environ callers: the GetEnv modifier (the variable name it was given) and Parse (the constants COMP_LINE and ZSHELL)", 3)
	for _, fn := range w.Funcs {
		if fn.Pkg != nil && shortName(fn.Pkg.Pkg.Path()) == "dag" {
			continue
		}
		for _, c := range allCalls(fn) {
			n := calleeName(c)
			if n != "os.Getenv" && n != "os.LookupEnv" && n != "os.Environ" && n != "os.ExpandEnv" && n != "syscall.Getenv" {
				continue
			}
			fnName := short(fn)
			switch {
			case n == "os.Getenv" && fnName == nParse:
				s, ok := constString(c.Common().Args[0])
				ru.Check(ok && (s == "COMP_LINE" || s == "ZSHELL"), "Getenv/Parse", w.IPos(c), "completion variable "+s, "Parse reads an environment variable other than the completion ones: option values could change at parse time")
			case (n == "os.Getenv" || n == "os.LookupEnv") && strings.HasPrefix(fnName, "(*getoptions.GetOpt).GetEnv$"):
				arg := c.Common().Args[0]
				if src := envNameSource(w, fn, arg); src != nil {
					arg = src
				}
				_, isFree := arg.(*ssa.FreeVar)
				if u, ok := arg.(*ssa.UnOp); ok {
					_, isFree = u.X.(*ssa.FreeVar)
				}
				ru.Check(isFree, "Getenv/GetEnv", w.IPos(c), "reads the variable named at definition", "GetEnv reads a variable other than the one named")
			default:
				ru.Bad("Getenv/"+fnName, w.IPos(c), "unexpected environment read ("+n+")")
			}
		}
	}
}

// reachableFrom: functions reachable in the CHA graph from the roots, not following calls through CommandFn values (user code).
func (w *World) reachableFrom(roots []*ssa.Function, cut func(e *callgraph.Edge) bool) map[*ssa.Function]bool {
	cg := w.CG()
	seen := map[*ssa.Function]bool{}
	var stack []*ssa.Function
	for _, r := range roots {
		if r != nil && !seen[r] {
			seen[r] = true
			stack = append(stack, r)
		}
	}
	for len(stack) > 0 {
		f := stack[len(stack)-1]
		stack = stack[:len(stack)-1]
		n := cg.Nodes[f]
		if n == nil {
			continue
		}
		for _, e := range n.Out {
			if cut != nil && cut(e) {
				continue
			}
			t := e.Callee.Func
			if !seen[t] {
				seen[t] = true
				stack = append(stack, t)
			}
		}
	}
	return seen
}

func cutUserCode(e *callgraph.Edge) bool {
	if e.Site == nil {
		return false
	}
	n := calleeName(e.Site)
	// user supplied functions: command functions, completion functions
	return n == nDynCommandFn || strings.HasPrefix(n, "dyn:getoptions.ArgCompletionsFn") || strings.HasPrefix(n, "dyn:option.ValueCompletionsFn")
}

func rC12Reachability(w *World, r *Report) {
	ru := r.Rule("R12.2", "call graph (CHA): from Parse and Dispatch (user functions cut off) no os.Getenv with a non-constant name and no call through a ModifyFn value is reachable; ModifyFn values are called only inside the twelve definers (or a helper only they call)", 2)
	roots := []*ssa.Function{w.Fn(nParse), w.Fn(nDispatch), w.Fn(nParseCLI)}
	if roots[0] == nil || roots[1] == nil {
		ru.Undecided("anchor", "-", "Parse / Dispatch not found")
		return
	}
	reach := w.reachableFrom(roots, cutUserCode)
	bad := 0
	for fn := range reach {
		if fn.Blocks == nil {
			continue
		}
		for _, c := range allCalls(fn) {
			n := calleeName(c)
			if n == nDynModifyFn {
				bad++
				ru.Bad("reachable-modifier/"+short(fn), w.IPos(c), "an option modifier (e.g. GetEnv) can run during Parse/Dispatch: the environment would override the command line")
			}
			if n == "os.Getenv" {
				if _, ok := constString(c.Common().Args[0]); !ok {
					bad++
					ru.Bad("reachable-getenv/"+short(fn), w.IPos(c), "an environment read with a computed name is reachable from Parse/Dispatch")
				}
			}
		}
	}
	if bad == 0 {
		ru.OK("parse-time/no-environment", w.Pos(roots[0].Pos()), fmt.Sprintf("%d functions reachable from Parse/Dispatch: none applies modifiers or reads a named variable", len(reach)))
	}
	// ModifyFn call sites
	definers := map[string]bool{}
	for _, d := range definerTable {
		definers["(*getoptions.GetOpt)."+d.varFn] = true
	}
	for _, fn := range w.Funcs {
		for _, c := range allCalls(fn) {
			if calleeName(c) == nDynModifyFn {
				if definers[short(fn)] {
					ru.Present("modifier-site/"+short(fn), w.IPos(c), "definition time")
				} else if isModifierApplier(fn) && onlyCalledFrom(w, fn, definers) {
					ru.Present("modifier-site/"+short(fn), w.IPos(c), "helper called only by the definers")
				} else {
					ru.Bad("modifier-site/"+short(fn), w.IPos(c), "modifiers are applied outside the definers")
				}
			}
		}
	}
}

func definersRule(id string) func(w *World, r *Report) {
	return func(w *World, r *Report) {
		sub := NewReport(r.Prop)
		rC06Definers(w, sub)
		ru := r.Rule(id, "definition order (same obligations as C06 R06.5): the declared default is stored before the modifiers run, so an environment value applied by a modifier is not overwritten by the default", 12)
		for _, o := range sub.Obls {
			if strings.HasPrefix(o.Key, "definer/") {
				ru.add(o.Status, o.Key, o.Pos, o.Detail, true)
			}
		}
	}
}

func rC12GetEnvBody(w *World, r *Report) {
	ru := r.Rule("R12.4", "GetEnv modifier: everything but SetEnvVar is guarded by value != \"\"; the seven scalar kinds are handled, the multi-value kinds and the counter are left alone; non-bool kinds Save the variable's text verbatim; bool Saves the lower-cased text only when it equals \"true\" or \"false\"; SetCalled receives the variable's name", 9)
	fn := w.Fn("(*getoptions.GetOpt).GetEnv$1")
	if fn == nil {
		ru.Undecided("anchor", "-", "GetEnv closure not found")
		return
	}
	getenv, envFound, envCall := envRead(fn)
	if getenv == nil {
		ru.Bad("GetEnv/read", w.Pos(fn.Pos()), "GetEnv does not read the environment")
		return
	}
	nameArg := envCall.Call.Args[0]
	if fv := envNameSource(w, fn, nameArg); fv != nil {
		nameArg = fv
	}
	sameFree := func(a, b ssa.Value) bool {
		if fv := envNameSource(w, fn, a); fv != nil {
			a = fv
		}
		return sameFree(a, b)
	}
	nonEmpty := func(b *ssa.BasicBlock) bool {
		for _, f := range factsAt(b) {
			if f.Op == token.NEQ && f.Y != nil && f.X == getenv {
				if s, ok := constString(f.Y); ok && s == "" {
					return true
				}
			}
		}
		return false
	}
	ig := buildIG(fn)
	kinds := []string{"BoolType", "StringType", "IntType", "Float64Type", "StringOptionalType", "IntOptionalType", "Float64OptionalType"}
	saves := callsTo(fn, nSave)
	setc := callsTo(fn, "(*option.Option).SetCalled")
	for _, c := range append(append([]ssa.CallInstruction{}, saves...), setc...) {
		ru.Check(nonEmpty(c.Block()), "GetEnv/guard/"+calleeName(c), w.IPos(c), "only for a non-empty value", "an unset or empty variable changes the option")
	}
	for _, c := range setc {
		ru.Check(sameFree(c.Common().Args[1], nameArg), "GetEnv/SetCalled-name", w.IPos(c), "CalledAs = the variable's name", "SetCalled is not given the variable's name")
	}
	for _, k := range kinds {
		key := "GetEnv/kind/" + k
		kc, _ := w.Obj("option", k).(*types.Const)
		if kc == nil {
			ru.Undecided(key, "-", "kind constant not found")
			continue
		}
		kval, _ := constantInt64(kc)
		edgeOK := kindEdgeFilter(w, kval, getenv, envFound)
		isSave := func(in ssa.Instruction) bool { c, ok := in.(ssa.CallInstruction); return ok && calleeName(c) == nSave }
		isSetC := func(in ssa.Instruction) bool {
			c, ok := in.(ssa.CallInstruction)
			return ok && calleeName(c) == "(*option.Option).SetCalled"
		}
		isRet := func(in ssa.Instruction) bool { _, ok := in.(*ssa.Return); return ok }
		reach := ig.reachFromE([]int{0}, nil, edgeOK)
		var ksaves []ssa.CallInstruction
		for _, c := range saves {
			if reach[ig.idx[c]] {
				ksaves = append(ksaves, c)
			}
		}
		if len(ksaves) == 0 {
			ru.Bad(key, w.Pos(fn.Pos()), "kind not handled by GetEnv (no Save reachable for it): the variable would be ignored")
			continue
		}
		good := true
		why := ""
		if k != "BoolType" {
			// with a non-empty value every path saves and marks the option called
			s1 := ig.reachFromE([]int{0}, isSave, edgeOK)
			s2 := ig.reachFromE([]int{0}, isSetC, edgeOK)
			for i, in := range ig.instrs {
				if isRet(in) && (s1[i] || s2[i]) {
					good, why = false, "for a non-empty value a path returns without Save(value) / SetCalled(name): valid text would be ignored or the option not marked called"
				}
			}
		}
		// a saved value always marks the option called (whatever the value: restating the default counts as supplied)
		// (in either order: SetCalled reads nothing Save writes and Save's result is discarded here)
		beforeSetC := ig.reachFromE([]int{0}, isSetC, edgeOK)
		for _, c := range ksaves {
			if ok, _ := ig.mustPass(ig.after(c), isSetC, isRet); !ok && beforeSetC[ig.idx[c]] {
				good, why = false, "after Save a path returns without SetCalled(name): a variable whose value was stored does not count as supplied (Called / Required)"
			}
		}
		// and the option counts as supplied only with a stored value
		beforeSave := ig.reachFromE([]int{0}, isSave, edgeOK)
		for _, c := range setc {
			if !reach[ig.idx[c]] {
				continue
			}
			if ok, _ := ig.mustPass(ig.after(c), isSave, isRet); !ok && beforeSave[ig.idx[c]] {
				good, why = false, "SetCalled(name) on a path that stores nothing: a variable whose text was refused counts as supplied"
			}
		}
		var kindEdges map[[2]*ssa.BasicBlock]bool
		for _, c := range ksaves {
			els, sp, _ := elementsOf(c.Common().Args[1], map[ssa.Value]bool{})
			if len(sp) > 0 || len(els) != 1 {
				good, why = false, "Save is not given exactly the variable's text"
				continue
			}
			v := els[0]
			// one Save behind the kind switch: the text is a merge, read on the edges this kind takes
			if _, isPhi := v.(*ssa.Phi); isPhi {
				if kindEdges == nil {
					_, kindEdges = ig.reachEdges([]int{0}, nil, edgeOK)
				}
				if vals := valuesFromEdges(v, kindEdges, map[ssa.Value]bool{}); len(vals) == 1 {
					v = vals[0]
				}
			}
			if k == "BoolType" {
				lc, ok := v.(*ssa.Call)
				if !ok || calleeName(lc) != "strings.ToLower" || lc.Call.Args[0] != getenv {
					good, why = false, "bool text is not the lower-cased variable"
					continue
				}
				seen := ig.reachFromE([]int{0}, nil, func(term ssa.Instruction, kk int) bool {
					if !edgeOK(term, kk) {
						return false
					}
					iff, ok := term.(*ssa.If)
					if !ok {
						return true
					}
					for _, f := range condFacts(iff.Cond, kk == 0, iff) {
						if f.Op == token.EQL && f.Y != nil && f.X == ssa.Value(lc) {
							if s, ok := constString(f.Y); ok && (s == "true" || s == "false") {
								return false
							}
						}
						// boolWords[v] with a constant table whose words are "true" and "false"
						if f.Op == token.ILLEGAL && f.Truth {
							if tab, key, half := tableLookup(f.X); tab != nil && key == ssa.Value(lc) {
								all := len(tab.trueKeys(half)) > 0
								for _, kc := range tab.trueKeys(half) {
									if kc.Kind() != constant.String || (constant.StringVal(kc) != "true" && constant.StringVal(kc) != "false") {
										all = false
									}
								}
								if all {
									return false
								}
							}
						}
						// slices.Contains([]string{"true", "false"}, v)
						if f.Op == token.ILLEGAL && f.Truth {
							if cc, ok := f.X.(*ssa.Call); ok && calleeBase(cc) == "slices.Contains" && len(cc.Call.Args) == 2 && cc.Call.Args[1] == ssa.Value(lc) {
								els, sp, okE := elementsOf(cc.Call.Args[0], map[ssa.Value]bool{})
								all := okE && len(sp) == 0 && len(els) > 0
								for _, e := range els {
									if s, ok := constString(e); !ok || (s != "true" && s != "false") {
										all = false
									}
								}
								if all {
									return false
								}
							}
						}
					}
					return true
				})
				if seen[ig.idx[c]] {
					good, why = false, "bool Save is reachable for texts other than true/false"
				}
			} else if v != getenv {
				good, why = false, "the text saved is not the variable's value verbatim"
			}
		}
		if good {
			ru.OK(key, w.IPos(ksaves[0]), "Save(value) + SetCalled(name)")
		} else {
			ru.Bad(key, w.IPos(ksaves[0]), why)
		}
	}
	// the multi-value kinds and the counter are not filled from the environment: what they hold comes from the
	// command line alone (values saved here would precede - not be overridden by - the ones given on the command line)
	for _, k := range []string{"StringRepeatType", "IntRepeatType", "Float64RepeatType", "StringMapType", "IncrementType"} {
		kc, _ := w.Obj("option", k).(*types.Const)
		if kc == nil {
			continue
		}
		kval, _ := constantInt64(kc)
		reach := ig.reachFromE([]int{0}, nil, kindEdgeFilter(w, kval, getenv, envFound))
		pos := ""
		for _, c := range saves {
			if reach[ig.idx[c]] {
				pos = w.IPos(c)
			}
		}
		ru.Check(pos == "", "GetEnv/not-for/"+k, w.Pos(fn.Pos()), "no Save for this kind", "GetEnv saves into an option of kind "+k+" (at "+pos+"): the values given on the command line are appended to / merged with the variable's instead of taking precedence")
	}
	// SetEnvVar(name)
	okEnv := false
	for _, c := range callsTo(fn, "(*option.Option).SetEnvVar") {
		if sameFree(c.Common().Args[1], nameArg) {
			okEnv = true
		}
	}
	ru.Check(okEnv, "GetEnv/SetEnvVar", w.Pos(fn.Pos()), "EnvVar recorded for the help", "the bound variable is not recorded (help would not show it)")
}

// envRead: the text GetEnv's closure reads from the environment: the result of os.Getenv, or the first result of
// os.LookupEnv (with the second, which is true whenever the first is non-empty).
func envRead(fn *ssa.Function) (val, found ssa.Value, call *ssa.Call) {
	for _, c := range callsTo(fn, "os.Getenv") {
		call = c.(*ssa.Call)
		val = call
		// a pluggable source that defaults to the process environment: the value is the merge of os.Getenv(name) and
		// of calls, with the same name, of a function held in a field the reference tree does not have
		if call.Referrers() != nil {
			for _, r := range *call.Referrers() {
				phi, ok := r.(*ssa.Phi)
				if !ok {
					continue
				}
				all := true
				for _, e := range phi.Edges {
					if e == ssa.Value(call) {
						continue
					}
					dc, ok := e.(*ssa.Call)
					if !ok || dc.Call.IsInvoke() || dc.Call.StaticCallee() != nil || len(dc.Call.Args) != 1 || !sameFree(dc.Call.Args[0], call.Call.Args[0]) {
						all = false
						break
					}
					ld, ok := dc.Call.Value.(*ssa.UnOp)
					if !ok {
						all = false
						break
					}
					fa, ok := ld.X.(*ssa.FieldAddr)
					if !ok || isBaselineField(fieldOfAddr(fa)) {
						all = false
						break
					}
				}
				if all {
					val = phi
				}
			}
		}
	}
	for _, c := range callsTo(fn, "os.LookupEnv") {
		cc, ok := c.(*ssa.Call)
		if !ok || cc.Referrers() == nil {
			continue
		}
		for _, u := range *cc.Referrers() {
			if e, ok := u.(*ssa.Extract); ok {
				if e.Index == 0 {
					val, call = e, cc
				} else {
					found = e
				}
			}
		}
	}
	return val, found, call
}

// envNameSource: v reads <opt>.EnvVar after <opt>.SetEnvVar(x) ran on every path to it, EnvVar being written by SetEnvVar
// alone in the whole library: v equals x, which is returned (nil otherwise).
func envNameSource(w *World, fn *ssa.Function, v ssa.Value) ssa.Value {
	base, ok := loadOfFieldNamed(v, "EnvVar")
	if !ok {
		return nil
	}
	ld := v.(*ssa.UnOp)
	pos := func(in ssa.Instruction) int {
		for i, x := range in.Block().Instrs {
			if x == in {
				return i
			}
		}
		return -1
	}
	var set ssa.CallInstruction
	for _, c := range callsTo(fn, "(*option.Option).SetEnvVar") {
		if c.Common().Args[0] == base && (c.Block() == ld.Block() && pos(c) < pos(ld) || c.Block() != ld.Block() && c.Block().Dominates(ld.Block())) {
			set = c
		}
	}
	if set == nil {
		return nil
	}
	for _, f := range w.Funcs {
		if short(f) == "(*option.Option).SetEnvVar" {
			continue
		}
		bad := false
		eachInstr(f, func(in ssa.Instruction) {
			if st, ok := in.(*ssa.Store); ok {
				if a, ok := st.Addr.(*ssa.FieldAddr); ok && fieldOfAddr(a).Name() == "EnvVar" {
					bad = true
				}
			}
		})
		if bad {
			return nil
		}
	}
	return set.Common().Args[1]
}

// sameFree: both values read the same captured variable.
func sameFree(a, b ssa.Value) bool {
	fv := func(v ssa.Value) ssa.Value {
		if u, ok := v.(*ssa.UnOp); ok && u.Op == token.MUL {
			return u.X
		}
		return v
	}
	return fv(a) == fv(b)
}

// isHelpCalledPredicate: the call is gopt.Called(<node>.HelpCommandName), or a call of a same-module helper whose
// result is that call (and false when no help name is declared).
func isHelpCalledPredicate(call *ssa.Call, depth int) bool {
	if calleeName(call) == "(*getoptions.GetOpt).Called" {
		if _, ok := loadOfFieldNamed(call.Call.Args[1], "HelpCommandName"); ok {
			return true
		}
		return false
	}
	callee := call.Call.StaticCallee()
	if callee == nil || callee.Blocks == nil || depth > 1 {
		return false
	}
	sawCalled := false
	ok := true
	eachInstr(callee, func(in ssa.Instruction) {
		ret, isRet := in.(*ssa.Return)
		if !isRet || len(ret.Results) != 1 {
			return
		}
		for _, leaf := range phiLeaves(ret.Results[0], map[ssa.Value]bool{}) {
			if c, isC := leaf.(*ssa.Const); isC && c.Value != nil && c.Value.String() == "false" {
				continue
			}
			if c2, isCall := leaf.(*ssa.Call); isCall && isHelpCalledPredicate(c2, depth+1) {
				sawCalled = true
				continue
			}
			ok = false
		}
	})
	return ok && sawCalled
}

// onlyCalledFrom: every static call of fn in the library sits in one of the named functions.
func onlyCalledFrom(w *World, fn *ssa.Function, names map[string]bool) bool {
	n := 0
	for _, caller := range w.Funcs {
		for _, c := range allCalls(caller) {
			if c.Common().StaticCallee() == fn {
				n++
				if !names[short(caller)] {
					return false
				}
			}
		}
	}
	return n > 0
}

func constantInt64(c *types.Const) (int64, bool) { return constant.Int64Val(c.Val()) }

// kindEdgeFilter prunes branch edges that contradict OptType == kval and getenv != "" (facts on load(OptType) directly,
// or through a pure same-module predicate applied to it, evaluated over its own source under the assumption).
func kindEdgeFilter(w *World, kval int64, getenv, found ssa.Value) func(term ssa.Instruction, k int) bool {
	return func(term ssa.Instruction, k int) bool {
		iff, ok := term.(*ssa.If)
		if !ok {
			return true
		}
		// os.LookupEnv: a non-empty value was found
		if found != nil && iff.Cond == found && k == 1 {
			return false
		}
		for _, f := range condFacts(iff.Cond, k == 0, iff) {
			if f.Y != nil && (f.Op == token.EQL || f.Op == token.NEQ) {
				if _, isKind := loadOfFieldNamed(f.X, "OptType"); isKind {
					if c, ok := constInt(f.Y); ok {
						eq := c == kval
						if f.Op == token.NEQ {
							eq = !eq
						}
						if !eq {
							return false
						}
					}
				}
				if getenv != nil && f.X == getenv {
					if s, ok := constString(f.Y); ok && s == "" && f.Op == token.EQL {
						return false
					}
				}
			}
			if f.Op == token.ILLEGAL {
				// a constant table over the kinds: `if verbatimKinds[opt.OptType]`
				if tab, key, half := tableLookup(f.X); tab != nil {
					if _, isKind := loadOfFieldNamed(key, "OptType"); isKind {
						if v := tab.get(constant.MakeInt64(kval), half); v != nil && v.Kind() == constant.Bool && constant.BoolVal(v) != f.Truth {
							return false
						}
					}
				}
				if c, ok := f.X.(*ssa.Call); ok {
					if callee := c.Call.StaticCallee(); callee != nil && callee.Blocks != nil && w.PkgOfFn(callee) != nil {
						for i, a := range c.Call.Args {
							if _, isKind := loadOfFieldNamed(a, "OptType"); isKind && i < len(callee.Params) {
								if decided, val := evalPredicate(callee, callee.Params[i], kval); decided && val != f.Truth {
									return false
								}
							}
						}
					}
				}
			}
		}
		return true
	}
}

// evalPredicate explores a small pure predicate under the assumption param == val and reports its constant result, if unique.
func evalPredicate(fn *ssa.Function, param *ssa.Parameter, val int64) (decided, result bool) {
	results := map[string]bool{}
	other := false
	pe := &pathExplorer{
		assume: func(f Fact) (bool, bool) {
			if f.Y != nil && (f.Op == token.EQL || f.Op == token.NEQ) && f.X == ssa.Value(param) {
				if c, ok := constInt(f.Y); ok {
					eq := c == val
					if f.Op == token.NEQ {
						eq = !eq
					}
					return true, eq
				}
			}
			return false, false
		},
		onReturn: func(ret *ssa.Return, env boolEnv) {
			if len(ret.Results) != 1 {
				other = true
				return
			}
			switch evalBool(ret.Results[0], env) {
			case 2:
				results["true"] = true
			case 1:
				results["false"] = true
			default:
				other = true
			}
		},
	}
	pe.startBlock(fn.Blocks[0], boolEnv{})
	if other || len(results) != 1 {
		return false, false
	}
	return true, results["true"]
}

// isFreshZeroInit: the write stores the zero value (nil, false, 0, "") into a field of an object that the function is
// creating (a composite literal with the zero value spelled out).
func isFreshZeroInit(u fieldUse) bool {
	st, ok := u.Instr.(*ssa.Store)
	if !ok {
		return false
	}
	if _, fresh := rootOfAddr(u.Addr.X).(*ssa.Alloc); !fresh {
		return false
	}
	c, ok := st.Val.(*ssa.Const)
	if !ok {
		return false
	}
	if c.Value == nil {
		return true
	}
	switch c.Value.ExactString() {
	case "false", "0", "\"\"":
		return true
	}
	return false
}

package main

// gochk - repository-specific static analyser deciding the properties C01..C20 of go-getoptions.
//
//   gochk -repo /repo -verif /verif -prop C07 -tier quick
//   gochk -explain /verif/evidence/replay/C07-1.json
//   gochk -dump 'getoptions.parseCLIArgs'

import (
	"encoding/json"
	"flag"
	"fmt"
	"go/ast"
	"go/token"
	"go/types"
	"os"
	"path/filepath"
	"runtime/debug"
	"runtime/pprof"
	"sort"
	"strconv"
	"strings"
	"time"
)

type propDef struct {
	ID          string
	Level       string // evidence level
	Rules       []func(w *World, r *Report)
	Assumptions []string
}

var props = map[string]*propDef{}

func register(id, level string, assumptions []string, rules ...func(w *World, r *Report)) {
	props[id] = &propDef{ID: id, Level: level, Rules: rules, Assumptions: assumptions}
}

// addRules appends rules to an already registered property (used by the files holding later rounds of rules).
func addRules(id string, rules ...func(w *World, r *Report)) {
	pd, ok := props[id]
	if !ok {
		panic("addRules: unknown property " + id)
	}
	pd.Rules = append(pd.Rules, rules...)
}

func main() {
	repo := flag.String("repo", "/repo", "repository root (current working tree is analysed)")
	verif := flag.String("verif", "/verif", "verification directory (evidence, known findings)")
	prop := flag.String("prop", "", "property id (C01..C20) or 'all'")
	tier := flag.String("tier", "quick", "quick|thorough")
	explain := flag.String("explain", "", "replay file: re-evaluate that obligation on the current tree")
	dump := flag.String("dump", "", "debug: dump the SSA of the named function")
	noEvidence := flag.Bool("no-evidence", false, "do not write evidence files (used for scratch copies and overlays)")
	mutants := flag.String("mutants", "", "run the sensitivity corpus from this directory for the property (thorough tier does this automatically)")
	dumpFuncs := flag.Bool("dump-funcs", false, "maintenance: print the reference table of named functions (name, signature) of the tree")
	dumpWriters := flag.Bool("dump-writers", false, "maintenance: print, for every struct field of the library, the functions that write it")
	flag.Parse()
	if *dumpWriters {
		w, err := LoadWorld(*repo, nil, nil)
		if err != nil {
			fmt.Fprintln(os.Stderr, err)
			os.Exit(2)
		}
		dumpFieldWriters(w)
		return
	}
	if pf := os.Getenv("GOCHK_CPUPROFILE"); pf != "" {
		if f, err := os.Create(pf); err == nil {
			_ = pprof.StartCPUProfile(f)
			defer pprof.StopCPUProfile()
		}
	}

	if *dumpFuncs {
		w, err := loadWorldRaw(*repo, nil, nil)
		if err != nil {
			fmt.Fprintln(os.Stderr, err)
			os.Exit(2)
		}
		var lines []string
		for _, p := range w.Pkgs {
			for _, file := range p.Syntax {
				for _, d := range file.Decls {
					if fd, ok := d.(*ast.FuncDecl); ok {
						if obj, ok := p.TypesInfo.Defs[fd.Name].(*types.Func); ok {
							lines = append(lines, funcShortName(obj)+"\t"+sigKey(obj.Type().(*types.Signature)))
							if fd.Body != nil {
								lines = append(lines, goParamLines(p, fd, funcShortName(obj))...)
								ast.Inspect(fd.Body, func(n ast.Node) bool {
									if as, ok := n.(*ast.AssignStmt); ok && as.Tok == token.DEFINE && len(as.Lhs) == 1 && len(as.Rhs) == 1 {
										if id, ok := as.Lhs[0].(*ast.Ident); ok {
											if _, ok := as.Rhs[0].(*ast.FuncLit); ok {
												lines = append(lines, "closure:"+funcShortName(obj)+"\t"+id.Name)
											}
										}
									}
									return true
								})
								seen := map[string]bool{}
								ast.Inspect(fd.Body, func(n ast.Node) bool {
									if id, ok := n.(*ast.Ident); ok {
										if f, ok := p.TypesInfo.Uses[id].(*types.Func); ok && f.Pkg() != nil && w.Pkgs[f.Pkg().Path()] != nil {
											k := "call:" + funcShortName(obj) + "\t" + funcShortName(f)
											if !seen[k] {
												seen[k] = true
												lines = append(lines, k)
											}
										}
									}
									return true
								})
							}
						}
					}
					if gd, ok := d.(*ast.GenDecl); ok && gd.Tok == token.TYPE {
						for _, sp := range gd.Specs {
							if ts, ok := sp.(*ast.TypeSpec); ok {
								if obj, ok := p.TypesInfo.Defs[ts.Name].(*types.TypeName); ok {
									lines = append(lines, "type:"+shortName(obj.Pkg().Path())+"."+obj.Name()+"\ttype")
									if st, ok := obj.Type().Underlying().(*types.Struct); ok {
										for i := 0; i < st.NumFields(); i++ {
											lines = append(lines, "field:"+shortName(obj.Pkg().Path())+"."+obj.Name()+"."+st.Field(i).Name())
										}
									}
								}
							}
						}
					}
				}
			}
		}
		sort.Strings(lines)
		fmt.Println("# reference table: every named function of the library packages at the pinned commit (name<TAB>signature without parameter names)")
		fmt.Println(strings.Join(lines, "\n"))
		return
	}

	if *dump != "" {
		w, err := LoadWorld(*repo, nil, nil)
		if err != nil {
			fmt.Fprintln(os.Stderr, err)
			os.Exit(2)
		}
		fn := w.Fn(*dump)
		if fn == nil {
			fmt.Fprintln(os.Stderr, "no such function; known:")
			for _, f := range w.Funcs {
				fmt.Fprintln(os.Stderr, "  ", short(f))
			}
			os.Exit(2)
		}
		fn.WriteTo(os.Stdout)
		return
	}

	if *explain != "" {
		b, err := os.ReadFile(*explain)
		if err != nil {
			fmt.Fprintln(os.Stderr, err)
			os.Exit(2)
		}
		var rp struct{ Property, Rule, Construct string }
		if err := json.Unmarshal(b, &rp); err != nil {
			fmt.Fprintln(os.Stderr, err)
			os.Exit(2)
		}
		w, err := LoadWorld(*repo, nil, nil)
		if err != nil {
			fmt.Fprintln(os.Stderr, err)
			os.Exit(2)
		}
		rep := runProp(w, rp.Property)
		known, _, _ := readKnown(filepath.Join(*verif, "known_findings.txt"))
		rep.finish(known)
		found := false
		for _, o := range rep.Obls {
			if o.Rule == rp.Rule && o.Key == rp.Construct {
				found = true
				fmt.Printf("%s %s %s @ %s: %s\n  %s\n", rp.Property, o.Rule, o.Key, o.Pos, o.Status, o.Detail)
				if o.Status == stViolated || o.Status == stUndecided {
					fmt.Printf("VIOLATION property=%s replay=%s\n", rp.Property, *explain)
					os.Exit(1)
				}
			}
		}
		if !found {
			fmt.Printf("%s %s %s: obligation no longer produced on the current tree\n", rp.Property, rp.Rule, rp.Construct)
		}
		return
	}

	seed := 0
	if s := os.Getenv("VERIF_SEED"); s != "" {
		if n, err := strconv.Atoi(s); err == nil {
			seed = n
		}
	}
	if t := os.Getenv("VERIF_TIER"); t != "" && *tier == "" {
		*tier = t
	}
	if *prop == "" {
		fmt.Fprintln(os.Stderr, "usage: gochk -prop Cxx [-tier quick|thorough]")
		os.Exit(2)
	}
	var ids []string
	if *prop == "all" {
		for id := range props {
			ids = append(ids, id)
		}
		sort.Strings(ids)
	} else {
		ids = strings.Split(*prop, ",")
	}
	start := time.Now()
	w, err := LoadWorld(*repo, nil, nil)
	if err != nil {
		fmt.Fprintln(os.Stderr, "gochk: cannot analyse the tree:", err)
		os.Exit(2)
	}
	if out, err := goListIgnored(*repo); err != nil {
		fmt.Fprintln(os.Stderr, "gochk: go list failed:", err, out)
		os.Exit(2)
	} else {
		for _, line := range strings.Split(strings.TrimSpace(out), "\n") {
			if !strings.HasSuffix(strings.TrimSpace(line), "[]") {
				fmt.Fprintln(os.Stderr, "gochk: build-constrained files are not covered:", line)
				os.Exit(2)
			}
		}
	}
	loadTime := time.Since(start).Seconds()
	known, _, err := readKnown(filepath.Join(*verif, "known_findings.txt"))
	if err != nil {
		fmt.Fprintln(os.Stderr, "gochk: known findings:", err)
		os.Exit(2)
	}
	exit := 0
	for _, id := range ids {
		pd, ok := props[id]
		if !ok {
			fmt.Fprintf(os.Stderr, "gochk: property %s is not claimed (see MANIFEST.json not_applicable)\n", id)
			os.Exit(2)
		}
		t0 := time.Now()
		rep := runProp(w, id)
		rep.finish(known)
		extra := map[string]interface{}{"load_s": loadTime}
		if len(w.Notes) > 0 {
			extra["anchors_located_by_role"] = w.Notes
		}
		if *tier == "thorough" || *mutants != "" {
			dir := *mutants
			if dir == "" {
				dir = filepath.Join(*verif, "mutants")
			}
			extra["thorough"] = runThorough(w, *repo, dir, id, *tier == "thorough")
			if *tier == "thorough" {
				extra["seeded_changes"] = runSeeds(*repo, *verif, id)
				extra["benign_refactorings"] = runBenign(*repo, *verif, id)
			}
		}
		total, okN, bad, und, kn, _ := rep.counts()
		fmt.Printf("== %s: %d obligations: %d discharged, %d violated, %d undecided, %d known (%d rules; %d functions, %d SSA instructions analysed)\n",
			id, total, okN, bad, und, kn, len(rep.Rules), w.NFuncs, w.NInstrs)
		for _, ri := range rep.Rules {
			fmt.Printf("   %-7s %3d instance(s) (floor %d)  %s\n", ri.ID, ri.Count, ri.Floor, ri.Text)
		}
		for _, n := range w.Notes {
			fmt.Printf("   note: %s\n", n)
		}
		if os.Getenv("GOCHK_VERBOSE") != "" {
			for _, o := range rep.Obls {
				fmt.Printf("     [%s] %s %s @ %s: %s\n", o.Status, o.Rule, o.Key, o.Pos, o.Detail)
			}
		}
		var replays []string
		if !*noEvidence {
			cmdline := fmt.Sprintf("/verif/bin/gochk -repo %s -verif %s -prop %s -tier %s", *repo, *verif, id, *tier)
			replays, err = rep.writeEvidence(w, *verif, *tier, seed, pd.Level, time.Since(t0).Seconds()+loadTime, extra, pd.Assumptions, cmdline)
			if err != nil {
				fmt.Fprintln(os.Stderr, "gochk: evidence:", err)
				os.Exit(2)
			}
		}
		n := 0
		for _, o := range rep.Obls {
			switch o.Status {
			case stKnown:
				fmt.Printf("KNOWN-FINDING: property=%s rule=%s construct=%s %s (%s)\n", id, o.Rule, o.Key, o.Detail, o.Pos)
			case stViolated, stUndecided:
				fmt.Printf("  %s: %s [%s] %s: %s\n", o.Pos, o.Status, o.Rule, o.Key, o.Detail)
				rp := "-"
				if n < len(replays) {
					rp = replays[n]
				}
				n++
				fmt.Printf("VIOLATION property=%s replay=%s\n", id, rp)
				exit = 1
			}
		}
	}
	pprof.StopCPUProfile()
	os.Exit(exit)
}

// runProp evaluates all rules of a property; a panic inside a rule is a failed (undecided) obligation, never a pass.
func runProp(w *World, id string) *Report {
	curWorld = w
	rep := NewReport(id)
	pd := props[id]
	if pd == nil {
		return rep
	}
	for i, rule := range pd.Rules {
		func() {
			defer func() {
				if e := recover(); e != nil {
					ru := rep.Rule(fmt.Sprintf("R%s.panic%d", id[1:], i), "internal: rule evaluation must not panic", 0)
					ru.Undecided("panic", "-", fmt.Sprintf("checker panic: %v\n%s", e, firstLines(string(debug.Stack()), 12)))
				}
			}()
			rule(w, rep)
		}()
	}
	return rep
}

func firstLines(s string, n int) string {
	ls := strings.Split(s, "\n")
	if len(ls) > n {
		ls = ls[:n]
	}
	return strings.Join(ls, "\n")
}

package main

import (
	"fmt"
	"sort"
	"strings"

	"golang.org/x/tools/go/ssa"
)

// dumpFieldWriters prints field -> writers (maintenance aid: candidates for single-writer rules are confirmed by reading).
func dumpFieldWriters(w *World) {
	out := map[string]map[string]bool{}
	add := func(k, v string) {
		if out[k] == nil {
			out[k] = map[string]bool{}
		}
		out[k][v] = true
	}
	for _, fn := range w.Funcs {
		if w.PkgOfFn(fn) == nil {
			continue
		}
		eachInstr(fn, func(in ssa.Instruction) {
			switch x := in.(type) {
			case *ssa.Store:
				if fa, ok := x.Addr.(*ssa.FieldAddr); ok {
					f := fieldOfAddr(fa)
					kind := "store"
					if _, fresh := rootOfAddr(fa.X).(*ssa.Alloc); fresh {
						kind = "init"
					}
					add(typeString(fa.X.Type())+"."+f.Name(), short(fn)+":"+kind)
				}
			case *ssa.MapUpdate:
				if u, ok := x.Map.(*ssa.UnOp); ok {
					if fa, ok := u.X.(*ssa.FieldAddr); ok {
						add(typeString(fa.X.Type())+"."+fieldOfAddr(fa).Name(), short(fn)+":mapupdate")
					}
				}
			}
		})
	}
	var keys []string
	for k := range out {
		keys = append(keys, k)
	}
	sort.Strings(keys)
	for _, k := range keys {
		var vs []string
		for v := range out[k] {
			vs = append(vs, v)
		}
		sort.Strings(vs)
		fmt.Println(k + "\t" + strings.Join(vs, " "))
	}
}

package main

// dagx.go - E-ENUM: exploration of the paths of a function under assumptions about enum-valued fields and with the
// values of boolean phis tracked along each path (finite domains derived from the source; no repository code runs).

import (
	"fmt"
	"go/constant"
	"go/token"
	"go/types"

	"golang.org/x/tools/go/ssa"
)

// assumeFn decides an atomic fact under the current assumptions.
type assumeFn func(f Fact) (decided, truth bool)

type pathExplorer struct {
	assume    assumeFn
	stopBlock func(b *ssa.BasicBlock) bool
	// onArrive is called when a path enters a stop block: pred index of the edge taken and the environment after
	// evaluating the stop block's boolean phis.
	onArrive func(from, to *ssa.BasicBlock, predIdx int, env boolEnv)
	onReturn func(ret *ssa.Return, env boolEnv)
	// onInstr is called for every instruction passed on a path (may be nil)
	onInstr func(in ssa.Instruction, env boolEnv)
	seen    map[string]bool
	steps   int
}

func predIndex(from, to *ssa.BasicBlock, k int) int {
	// the k-th successor edge of from; if from appears several times among to.Preds pick the matching occurrence
	n := 0
	for j := 0; j < k; j++ {
		if from.Succs[j] == to {
			n++
		}
	}
	for i, p := range to.Preds {
		if p == from {
			if n == 0 {
				return i
			}
			n--
		}
	}
	return -1
}

func (pe *pathExplorer) enter(from *ssa.BasicBlock, k int, env boolEnv) {
	to := from.Succs[k]
	pi := predIndex(from, to, k)
	nenv := boolEnv{}
	for p, v := range env {
		nenv[p] = v
	}
	for _, in := range to.Instrs {
		phi, ok := in.(*ssa.Phi)
		if !ok {
			break
		}
		if isBoolType(phi.Type()) && pi >= 0 {
			nenv[phi] = evalBool(phi.Edges[pi], env)
		}
	}
	if pe.stopBlock != nil && pe.stopBlock(to) {
		if pe.onArrive != nil {
			pe.onArrive(from, to, pi, nenv)
		}
		return
	}
	pe.block(to, nenv)
}

func (pe *pathExplorer) block(b *ssa.BasicBlock, env boolEnv) {
	key := fmt.Sprintf("%d|%s", b.Index, env.key())
	if pe.seen == nil {
		pe.seen = map[string]bool{}
	}
	if pe.seen[key] {
		return
	}
	pe.seen[key] = true
	pe.steps++
	if pe.steps > 200000 {
		return
	}
	for _, in := range b.Instrs {
		if pe.onInstr != nil {
			pe.onInstr(in, env)
		}
		switch x := in.(type) {
		case *ssa.Return:
			if pe.onReturn != nil {
				pe.onReturn(x, env)
			}
			return
		case *ssa.If:
			want := int8(0) // 0 both, 2 true only, 1 false only
			if v := evalBool(x.Cond, env); v != 0 {
				want = v
			} else if pe.assume != nil {
				fs := condFactsRaw(x.Cond, true, x)
				if len(fs) == 1 {
					if d, t := pe.assume(fs[0]); d {
						if t {
							want = 2
						} else {
							want = 1
						}
					}
				}
			}
			for k := range b.Succs {
				if (want == 2 && k == 1) || (want == 1 && k == 0) {
					continue
				}
				nenv := env
				// learn the value of a tested boolean phi
				c := x.Cond
				neg := false
				if u, ok := c.(*ssa.UnOp); ok && u.Op == token.NOT {
					c, neg = u.X, true
				}
				if phi, ok := c.(*ssa.Phi); ok && isBoolType(phi.Type()) {
					nenv = boolEnv{}
					for p, v := range env {
						nenv[p] = v
					}
					truth := (k == 0) != neg
					if truth {
						nenv[phi] = 2
					} else {
						nenv[phi] = 1
					}
				}
				pe.enter(b, k, nenv)
			}
			return
		case *ssa.Jump:
			pe.enter(b, 0, env)
			return
		case *ssa.Panic:
			return
		}
	}
}

// startEdge begins the exploration on the k-th successor edge of from.
func (pe *pathExplorer) startEdge(from *ssa.BasicBlock, k int, env boolEnv) { pe.enter(from, k, env) }

// startBlock begins the exploration at the beginning of b.
func (pe *pathExplorer) startBlock(b *ssa.BasicBlock, env boolEnv) { pe.block(b, env) }

// enumConsts returns the constants of a named integer type of a package: name -> value.
func enumConsts(w *World, shortPkg, typeName string) map[string]int64 {
	out := map[string]int64{}
	p := w.Pkg(shortPkg)
	if p == nil {
		return out
	}
	for _, n := range p.Types.Scope().Names() {
		if c, ok := p.Types.Scope().Lookup(n).(*types.Const); ok && typeString(c.Type()) == shortPkg+"."+typeName {
			if v, ok := constant.Int64Val(c.Val()); ok {
				out[n] = v
			}
		}
	}
	return out
}

// assumeFieldOf builds an assumption: load(base.field) == val for the given base.
func assumeFieldOf(base ssa.Value, field string, val int64, next assumeFn) assumeFn {
	return func(f Fact) (bool, bool) {
		if f.Y != nil && (f.Op == token.EQL || f.Op == token.NEQ) {
			x, y := f.X, f.Y
			if _, ok := constInt(x); ok {
				x, y = y, x
			}
			if b, ok := loadOfFieldNamed(x, field); ok && b == base {
				if c, ok := constInt(y); ok {
					eq := c == val
					if f.Op == token.NEQ {
						eq = !eq
					}
					return true, eq
				}
			}
		}
		if next != nil {
			return next(f)
		}
		return false, false
	}
}

// assumeBoolField: load(base.field) (a bool) has the given value.
func assumeBoolField(field string, val bool, next assumeFn) assumeFn {
	return func(f Fact) (bool, bool) {
		if f.Op == token.ILLEGAL {
			if _, ok := loadOfFieldNamed(f.X, field); ok {
				return true, f.Truth == val
			}
		}
		if next != nil {
			return next(f)
		}
		return false, false
	}
}

// rangeElemOfHeader: for a rangeindex loop header, the loaded element value (`*(&coll[i])`) in the body; for a
// rangeiter (map) loop header, the value extract.
func rangeElem(h *ssa.BasicBlock) ssa.Value {
	// map range: header contains `next`
	for _, in := range h.Instrs {
		if nx, ok := in.(*ssa.Next); ok {
			for _, ref := range *nx.Referrers() {
				if ex, ok := ref.(*ssa.Extract); ok && ex.Index == 2 {
					return ex
				}
			}
		}
	}
	if rangeCollectionOfHeader(h) == nil {
		return nil
	}
	// consuming loop: element = rest[0] where rest is the header's consuming phi
	if iff, ok := h.Instrs[len(h.Instrs)-1].(*ssa.If); ok {
		if cmp, ok := iff.Cond.(*ssa.BinOp); ok && (cmp.Op == token.GTR || cmp.Op == token.NEQ) {
			if ln, ok := cmp.X.(*ssa.Call); ok && calleeName(ln) == "builtin:len" && len(ln.Call.Args) == 1 {
				if phi := consumingPhi(h, ln.Call.Args[0]); phi != nil {
					for lb := range naturalLoop(h) {
						for _, in := range lb.Instrs {
							if u, ok := in.(*ssa.UnOp); ok && u.Op == token.MUL {
								if ia, ok := u.X.(*ssa.IndexAddr); ok && ia.X == ssa.Value(phi) {
									if k, ok := constInt(ia.Index); ok && k == 0 {
										return u
									}
								}
							}
						}
					}
					return nil
				}
			}
		}
	}
	// slice range: body = Succs[0]; element = load of IndexAddr(coll, idx)
	body := h.Succs[0]
	for _, in := range body.Instrs {
		if u, ok := in.(*ssa.UnOp); ok && u.Op == token.MUL {
			if _, ok := u.X.(*ssa.IndexAddr); ok {
				return u
			}
		}
	}
	return nil
}

// loopHeaders returns the loop headers of fn (blocks with a back edge), outermost first by block index.
func loopHeaders(fn *ssa.Function) []*ssa.BasicBlock {
	var out []*ssa.BasicBlock
	for _, b := range fn.Blocks {
		for _, p := range b.Preds {
			if b.Dominates(p) {
				out = append(out, b)
				break
			}
		}
	}
	return out
}

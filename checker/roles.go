package main

// roles.go - rename tolerance. The rules anchor on the repository's own identifiers (parseCLIArgs, programTree,
// status, ...). Exported names are API and stay put; unexported ones can be renamed by a behaviour-preserving
// edit. Every unexported anchor therefore has a role: a structural signature (types of parameters and results,
// which API method stores a field, ...) that identifies the construct without its name. An anchor is looked up
// by name first; only when the name is absent is the role consulted, and it must select exactly one candidate.
// The located declarations are then renamed back to the canonical identifiers in an in-memory overlay
// (identifier occurrences resolved through go/types Defs/Uses; line numbers are unchanged) and the tree is
// loaded again, so every rule sees canonical names. Nothing is written to disk. A role that selects zero or
// several candidates leaves the anchor unresolved, which the rules report as undecided (a failing check).

import (
	"fmt"
	"go/ast"
	"go/token"
	"go/types"
	"os"
	"sort"
	"strconv"
	"strings"

	"golang.org/x/tools/go/packages"
)

type roleCtx struct {
	w       *World
	renames map[types.Object]string
	notes   []string
}

func (rc *roleCtx) pkg(short string) *packages.Package { return rc.w.Pkg(short) }

func (rc *roleCtx) lookup(short, name string) types.Object {
	p := rc.pkg(short)
	if p == nil {
		return nil
	}
	return p.Types.Scope().Lookup(name)
}

// want records that obj plays the role of the canonical identifier.
func (rc *roleCtx) want(obj types.Object, canonical, why string) {
	if obj == nil || obj.Name() == canonical {
		return
	}
	if _, dup := rc.renames[obj]; dup {
		return
	}
	rc.renames[obj] = canonical
	rc.notes = append(rc.notes, fmt.Sprintf("anchor %s located by role (%s): declared as %s at %s", canonical, why, obj.Name(), rc.w.Pos(obj.Pos())))
}

// named returns the package-level named type, by canonical name or through finder.
func (rc *roleCtx) named(short, canonical string, finder func() *types.TypeName, why string) *types.Named {
	if o, ok := rc.lookup(short, canonical).(*types.TypeName); ok {
		n, _ := o.Type().(*types.Named)
		return n
	}
	if finder == nil {
		return nil
	}
	tn := finder()
	if tn == nil {
		return nil
	}
	rc.want(tn, canonical, why)
	n, _ := tn.Type().(*types.Named)
	return n
}

func structOf(n *types.Named) *types.Struct {
	if n == nil {
		return nil
	}
	s, _ := n.Underlying().(*types.Struct)
	return s
}

func fieldByName(s *types.Struct, name string) *types.Var {
	if s == nil {
		return nil
	}
	for i := 0; i < s.NumFields(); i++ {
		if s.Field(i).Name() == name {
			return s.Field(i)
		}
	}
	return nil
}

// field resolves struct field canonical by name or by the unique field satisfying pred.
func (rc *roleCtx) field(n *types.Named, canonical string, pred func(f *types.Var) bool, why string) *types.Var {
	s := structOf(n)
	if s == nil {
		return nil
	}
	if f := fieldByName(s, canonical); f != nil {
		return f
	}
	var found []*types.Var
	for i := 0; i < s.NumFields(); i++ {
		f := s.Field(i)
		if _, taken := rc.renames[f]; taken {
			continue
		}
		if pred(f) {
			found = append(found, f)
		}
	}
	if len(found) != 1 {
		return nil
	}
	rc.want(found[0], canonical, why)
	return found[0]
}

// pkgFuncs lists the package-level functions (not methods) of a package.
func (rc *roleCtx) pkgFuncs(short string) []*types.Func {
	p := rc.pkg(short)
	if p == nil {
		return nil
	}
	var out []*types.Func
	for _, n := range p.Types.Scope().Names() {
		if f, ok := p.Types.Scope().Lookup(n).(*types.Func); ok {
			out = append(out, f)
		}
	}
	return out
}

func (rc *roleCtx) fn(short, canonical string, pred func(sig *types.Signature) bool, why string) *types.Func {
	if f, ok := rc.lookup(short, canonical).(*types.Func); ok {
		return f
	}
	var found []*types.Func
	for _, f := range rc.pkgFuncs(short) {
		if f.Exported() {
			continue
		}
		if _, taken := rc.renames[f]; taken {
			continue
		}
		if pred(f.Type().(*types.Signature)) {
			found = append(found, f)
		}
	}
	if len(found) != 1 {
		return nil
	}
	rc.want(found[0], canonical, why)
	return found[0]
}

func (rc *roleCtx) method(n *types.Named, canonical string, pred func(sig *types.Signature) bool, why string) *types.Func {
	if n == nil {
		return nil
	}
	var found []*types.Func
	for i := 0; i < n.NumMethods(); i++ {
		m := n.Method(i)
		if m.Name() == canonical {
			return m
		}
		if m.Exported() {
			continue
		}
		if _, taken := rc.renames[m]; taken {
			continue
		}
		if pred(m.Type().(*types.Signature)) {
			found = append(found, m)
		}
	}
	if len(found) != 1 {
		return nil
	}
	rc.want(found[0], canonical, why)
	return found[0]
}

func (rc *roleCtx) global(short, canonical string, pred func(v *types.Var) bool, why string) *types.Var {
	if v, ok := rc.lookup(short, canonical).(*types.Var); ok {
		return v
	}
	p := rc.pkg(short)
	if p == nil {
		return nil
	}
	var found []*types.Var
	for _, n := range p.Types.Scope().Names() {
		v, ok := p.Types.Scope().Lookup(n).(*types.Var)
		if !ok || v.Exported() {
			continue
		}
		if _, taken := rc.renames[v]; taken {
			continue
		}
		if pred(v) {
			found = append(found, v)
		}
	}
	if len(found) != 1 {
		return nil
	}
	rc.want(found[0], canonical, why)
	return found[0]
}

func sigParams(sig *types.Signature) []types.Type {
	var out []types.Type
	for i := 0; i < sig.Params().Len(); i++ {
		out = append(out, sig.Params().At(i).Type())
	}
	return out
}

func sigResults(sig *types.Signature) []types.Type {
	var out []types.Type
	for i := 0; i < sig.Results().Len(); i++ {
		out = append(out, sig.Results().At(i).Type())
	}
	return out
}

func isPtrTo(t types.Type, n *types.Named) bool {
	p, ok := t.(*types.Pointer)
	return ok && n != nil && types.Identical(p.Elem(), n)
}

func tstr(t types.Type) string { return shortName(t.String()) }

func isErrorType(t types.Type) bool { return t.String() == "error" }

// fieldsStoredIn: the fields of struct type n assigned (x.f = ..., x.f op= ...) in the body of the named method of recv.
func (rc *roleCtx) fieldsStoredIn(short, recv, method string, n *types.Named) map[*types.Var]bool {
	out := map[*types.Var]bool{}
	p := rc.pkg(short)
	s := structOf(n)
	if p == nil || s == nil {
		return out
	}
	own := map[*types.Var]bool{}
	for i := 0; i < s.NumFields(); i++ {
		own[s.Field(i)] = true
	}
	for _, file := range p.Syntax {
		for _, d := range file.Decls {
			fd, ok := d.(*ast.FuncDecl)
			if !ok || fd.Body == nil || fd.Name.Name != method {
				continue
			}
			if recv == "" && fd.Recv != nil || recv != "" && (fd.Recv == nil || !strings.HasSuffix(types.ExprString(fd.Recv.List[0].Type), recv)) {
				continue
			}
			ast.Inspect(fd.Body, func(nd ast.Node) bool {
				as, ok := nd.(*ast.AssignStmt)
				if !ok {
					return true
				}
				for _, l := range as.Lhs {
					if sel, ok := l.(*ast.SelectorExpr); ok {
						if v, ok := p.TypesInfo.Uses[sel.Sel].(*types.Var); ok && v.IsField() && own[v] {
							out[v] = true
						}
					}
				}
				return true
			})
		}
	}
	return out
}

// discoverRoles fills rc.renames with every unexported anchor that is missing under its canonical name.
func discoverRoles(w *World) *roleCtx {
	rc := &roleCtx{w: w, renames: map[types.Object]string{}}

	// ---- package getoptions -------------------------------------------------------------------------------------
	getopt, _ := rc.lookup("getoptions", "GetOpt").(*types.TypeName)
	var getoptN *types.Named
	if getopt != nil {
		getoptN, _ = getopt.Type().(*types.Named)
	}
	tree := rc.named("getoptions", "programTree", func() *types.TypeName {
		// the struct type both fields of GetOpt point to
		s := structOf(getoptN)
		if s == nil {
			return nil
		}
		var tn *types.TypeName
		for i := 0; i < s.NumFields(); i++ {
			p, ok := s.Field(i).Type().(*types.Pointer)
			if !ok {
				continue
			}
			n, ok := p.Elem().(*types.Named)
			if !ok || n.Obj().Pkg() != getopt.Pkg() || n.Obj().Exported() {
				continue
			}
			if tn != nil && tn != n.Obj() {
				return nil
			}
			tn = n.Obj()
		}
		return tn
	}, "the unexported struct the fields of GetOpt point to")
	optN := func() *types.Named {
		if o, ok := rc.lookup("option", "Option").(*types.TypeName); ok {
			n, _ := o.Type().(*types.Named)
			return n
		}
		return nil
	}()
	iterN := func() *types.Named {
		if o, ok := rc.lookup("sliceiterator", "Iterator").(*types.TypeName); ok {
			n, _ := o.Type().(*types.Named)
			return n
		}
		return nil
	}()
	pair := rc.named("getoptions", "optionPair", func() *types.TypeName {
		p := rc.pkg("getoptions")
		if p == nil {
			return nil
		}
		var found []*types.TypeName
		for _, n := range p.Types.Scope().Names() {
			tn, ok := p.Types.Scope().Lookup(n).(*types.TypeName)
			if !ok || tn.Exported() {
				continue
			}
			s, ok := tn.Type().Underlying().(*types.Struct)
			if !ok || s.NumFields() != 2 {
				continue
			}
			hasOpt, hasArgs := false, false
			for i := 0; i < s.NumFields(); i++ {
				switch tstr(s.Field(i).Type()) {
				case "string":
					hasOpt = true
				case "[]string":
					hasArgs = true
				}
			}
			if hasOpt && hasArgs {
				found = append(found, tn)
			}
		}
		if len(found) != 1 {
			return nil
		}
		return found[0]
	}, "the two-field struct {string; []string} the tokeniser returns")

	if tree != nil {
		rc.fn("getoptions", "parseCLIArgs", func(sig *types.Signature) bool {
			r := sigResults(sig)
			return len(r) == 3 && isPtrTo(r[0], tree) && isErrorType(r[2])
		}, "the package function returning (*programTree, completions, error)")
		rc.fn("getoptions", "getAliasNameFromPartialEntry", func(sig *types.Signature) bool {
			p, r := sigParams(sig), sigResults(sig)
			return len(p) == 2 && isPtrTo(p[0], tree) && tstr(p[1]) == "string" && len(r) == 1 && tstr(r[0]) == "[]string"
		}, "the package function (node, entry string) []string")
		rc.fn("getoptions", "storeRemainingAsText", func(sig *types.Signature) bool {
			p := sigParams(sig)
			return len(p) == 2 && isPtrTo(p[0], iterN) && isPtrTo(p[1], tree) && sig.Results().Len() == 0
		}, "the package function (iterator, node) without results")
		rc.fn("getoptions", "newUnknownCLIOption", func(sig *types.Signature) bool {
			p, r := sigParams(sig), sigResults(sig)
			return len(p) >= 1 && isPtrTo(p[0], tree) && len(r) == 1 && isPtrTo(r[0], optN)
		}, "the package function (node, ...) *option.Option")
		rc.fn("getoptions", "copyOptionsFromParent", func(sig *types.Signature) bool {
			p := sigParams(sig)
			return len(p) == 1 && isPtrTo(p[0], tree) && sig.Results().Len() == 0
		}, "the package function (node) without results")
		rc.fn("getoptions", "helpOutput", func(sig *types.Signature) bool {
			p, r := sigParams(sig), sigResults(sig)
			return len(p) == 2 && isPtrTo(p[0], tree) && sig.Variadic() && tstr(p[1]) == "[]getoptions.HelpSection" && len(r) == 1 && tstr(r[0]) == "string"
		}, "the package function (node, ...HelpSection) string")
		rc.fn("getoptions", "runHelp", func(sig *types.Signature) bool {
			p, r := sigParams(sig), sigResults(sig)
			return len(p) == 3 && tstr(p[0]) == "context.Context" && isPtrTo(p[1], getoptN) && tstr(p[2]) == "[]string" && len(r) == 1 && isErrorType(r[0])
		}, "the package function with the CommandFn signature")
		rc.method(tree, "str", func(sig *types.Signature) bool {
			return sig.Params().Len() == 0 && sig.Results().Len() == 1
		}, "the unexported niladic method of programTree with one result")
	}
	if pair != nil {
		rc.fn("getoptions", "isOption", func(sig *types.Signature) bool {
			r := sigResults(sig)
			if len(r) != 2 || tstr(r[1]) != "bool" {
				return false
			}
			s, ok := r[0].(*types.Slice)
			return ok && types.Identical(s.Elem(), pair)
		}, "the package function returning ([]optionPair, bool)")
	}
	rc.global("getoptions", "exitFn", func(v *types.Var) bool { return tstr(v.Type()) == "func(code int)" || tstr(v.Type()) == "func(int)" }, "the unexported package variable of type func(int)")
	rc.global("getoptions", "completionWriter", func(v *types.Var) bool { return tstr(v.Type()) == "io.Writer" }, "the unexported package variable of type io.Writer")
	rc.regexGlobals()

	// fields of GetOpt
	if getoptN != nil && tree != nil {
		stored := rc.fieldsStoredIn("getoptions", "GetOpt", "Parse", getoptN)
		isTreeField := func(f *types.Var) bool { return isPtrTo(f.Type(), tree) }
		rc.field(getoptN, "finalNode", func(f *types.Var) bool { return isTreeField(f) && stored[f] }, "the *programTree field of GetOpt that Parse stores")
		rc.field(getoptN, "programTree", func(f *types.Var) bool { return isTreeField(f) && !stored[f] }, "the *programTree field of GetOpt that Parse does not store")
	}
	// fields of programTree
	if tree != nil {
		typed := func(ts string) func(f *types.Var) bool {
			return func(f *types.Var) bool { return tstr(f.Type()) == ts }
		}
		rc.field(tree, "mode", typed("getoptions.Mode"), "the field of type Mode")
		rc.field(tree, "unknownMode", typed("getoptions.UnknownMode"), "the field of type UnknownMode")
		for _, x := range []struct{ canonical, setter string }{{"requireOrder", "SetRequireOrder"}, {"skipOptionsCopy", "UnsetOptions"}, {"mapKeysToLower", "SetMapKeysToLower"}} {
			st := rc.fieldsStoredIn("getoptions", "GetOpt", x.setter, tree)
			rc.field(tree, x.canonical, func(f *types.Var) bool { return tstr(f.Type()) == "bool" && st[f] }, "the bool field stored by "+x.setter)
		}
		treeS := "*" + tstr(tree)
		rc.field(tree, "ChildCommands", typed("map[string]"+treeS), "the field of type map[string]*programTree")
		rc.field(tree, "ChildOptions", typed("map[string]*option.Option"), "the field of type map[string]*option.Option")
		rc.field(tree, "UnknownOptions", typed("[]*option.Option"), "the field of type []*option.Option")
		rc.field(tree, "Parent", typed(treeS), "the field of type *programTree")
		rc.field(tree, "CommandFn", typed("getoptions.CommandFn"), "the field of type CommandFn")
		rc.field(tree, "SuggestionFns", typed("[]getoptions.ArgCompletionsFn"), "the field of type []ArgCompletionsFn")
		rc.field(tree, "SynopsisArgs", typed("[]help.SynopsisArg"), "the field of type []help.SynopsisArg")
		// the two []string fields: ChildText is the one the remaining-arguments helper appends to
		if f := rc.lookup("getoptions", "storeRemainingAsText"); f != nil || rc.canonicalObj("storeRemainingAsText") != nil {
			name := "storeRemainingAsText"
			if o := rc.canonicalObj(name); o != nil {
				name = o.Name()
			}
			st := rc.fieldsStoredIn("getoptions", "", name, tree)
			rc.field(tree, "ChildText", func(f *types.Var) bool { return tstr(f.Type()) == "[]string" && st[f] }, "the []string field the remaining-arguments helper appends to")
			rc.field(tree, "Suggestions", func(f *types.Var) bool { return tstr(f.Type()) == "[]string" && !st[f] }, "the other []string field")
		}
	}
	// fields of option.Option
	if optN != nil {
		for canonical, ts := range map[string]string{"pBool": "*bool", "pString": "*string", "pInt": "*int", "pFloat64": "*float64", "pStringS": "*[]string", "pIntS": "*[]int", "pFloat64S": "*[]float64", "pStringM": "*map[string]string"} {
			ts := ts
			rc.field(optN, canonical, func(f *types.Var) bool { return !f.Exported() && tstr(f.Type()) == ts }, "the unexported receiver field of type "+ts)
		}
		rc.field(optN, "boolDefault", func(f *types.Var) bool { return !f.Exported() && tstr(f.Type()) == "bool" }, "the unexported bool field of Option")
	}
	// fields of sliceiterator.Iterator
	if iterN != nil {
		rc.field(iterN, "idx", func(f *types.Var) bool { return tstr(f.Type()) == "int" }, "the int field of Iterator")
		rc.field(iterN, "data", func(f *types.Var) bool { return tstr(f.Type()) == "*[]string" }, "the *[]string field of Iterator")
	}

	// ---- package dag --------------------------------------------------------------------------------------------
	dagNamed := func(name string) *types.Named {
		if o, ok := rc.lookup("dag", name).(*types.TypeName); ok {
			n, _ := o.Type().(*types.Named)
			return n
		}
		return nil
	}
	vertex, graph, task, errsT := dagNamed("Vertex"), dagNamed("Graph"), dagNamed("Task"), dagNamed("Errors")
	unexportedIntTypes := func(except *types.Named) []*types.TypeName {
		p := rc.pkg("dag")
		if p == nil {
			return nil
		}
		var out []*types.TypeName
		for _, n := range p.Types.Scope().Names() {
			tn, ok := p.Types.Scope().Lookup(n).(*types.TypeName)
			if !ok || tn.Exported() {
				continue
			}
			if b, ok := tn.Type().Underlying().(*types.Basic); ok && b.Info()&types.IsInteger != 0 {
				if except == nil || tn != except.Obj() {
					out = append(out, tn)
				}
			}
		}
		return out
	}
	runStatus := rc.named("dag", "runStatus", func() *types.TypeName {
		s := structOf(vertex)
		if s == nil {
			return nil
		}
		var tn *types.TypeName
		for i := 0; i < s.NumFields(); i++ {
			n, ok := s.Field(i).Type().(*types.Named)
			if !ok || n.Obj().Exported() || n.Obj().Pkg() != vertex.Obj().Pkg() {
				continue
			}
			if _, ok := n.Underlying().(*types.Basic); !ok {
				continue
			}
			if tn != nil {
				return nil
			}
			tn = n.Obj()
		}
		return tn
	}, "the unexported integer type of a Vertex field")
	visitStatus := rc.named("dag", "visitStatus", func() *types.TypeName {
		if runStatus == nil {
			return nil
		}
		c := unexportedIntTypes(runStatus)
		if len(c) != 1 {
			return nil
		}
		return c[0]
	}, "the other unexported integer type of package dag")
	rc.enumByValue("dag", runStatus, []string{"runPending", "runInProgress", "runSkip", "runDone"})
	rc.enumByValue("dag", visitStatus, []string{"unvisited", "visited", "traversed"})
	if vertex != nil && runStatus != nil {
		rc.field(vertex, "status", func(f *types.Var) bool { return types.Identical(f.Type(), runStatus) }, "the Vertex field of type runStatus")
	}
	if vertex != nil {
		rc.fn("dag", "visit", func(sig *types.Signature) bool {
			p, r := sigParams(sig), sigResults(sig)
			hasV := false
			for _, t := range p {
				if isPtrTo(t, vertex) {
					hasV = true
				}
			}
			return hasV && len(p) == 3 && len(r) == 1 && isErrorType(r[0])
		}, "the package function (sorted, status, vertex) error")
		rc.fn("dag", "skipParents", func(sig *types.Signature) bool {
			p := sigParams(sig)
			return len(p) == 1 && isPtrTo(p[0], vertex) && sig.Results().Len() == 0
		}, "the package function (vertex) without results")
	}
	if graph != nil && task != nil && vertex != nil {
		rc.method(graph, "addTask", func(sig *types.Signature) bool {
			p, r := sigParams(sig), sigResults(sig)
			return len(p) == 1 && isPtrTo(p[0], task) && len(r) == 1 && isErrorType(r[0])
		}, "the unexported Graph method (task) error")
		rc.method(graph, "retrieveOrAddVertex", func(sig *types.Signature) bool {
			p, r := sigParams(sig), sigResults(sig)
			return len(p) == 1 && isPtrTo(p[0], task) && len(r) == 2 && isPtrTo(r[0], vertex) && isErrorType(r[1])
		}, "the unexported Graph method (task) (*Vertex, error)")
		rc.method(graph, "getNextVertex", func(sig *types.Signature) bool {
			r := sigResults(sig)
			return sig.Params().Len() == 0 && len(r) == 3 && isPtrTo(r[0], vertex) && tstr(r[1]) == "bool" && tstr(r[2]) == "bool"
		}, "the unexported niladic Graph method returning (*Vertex, bool, bool)")
	}
	if graph != nil {
		rc.field(graph, "errs", func(f *types.Var) bool { return isPtrTo(f.Type(), errsT) }, "the Graph field of type *Errors")
		rc.field(graph, "bufferMutex", func(f *types.Var) bool { return tstr(f.Type()) == "sync.Mutex" }, "the Graph field of type sync.Mutex")
		rc.field(graph, "bufferWriter", func(f *types.Var) bool { return tstr(f.Type()) == "io.Writer" }, "the Graph field of type io.Writer")
		for _, x := range []struct{ canonical, setter, ts string }{{"maxParallel", "SetMaxParallel", "int"}, {"serial", "SetSerial", "bool"}, {"bufferOutput", "SetOutputBuffer", "bool"}} {
			st := rc.fieldsStoredIn("dag", "Graph", x.setter, graph)
			ts := x.ts
			rc.field(graph, x.canonical, func(f *types.Var) bool { return tstr(f.Type()) == ts && st[f] && !f.Exported() }, "the "+x.ts+" field stored by "+x.setter)
		}
	}
	if task != nil {
		rc.field(task, "sm", func(f *types.Var) bool { return tstr(f.Type()) == "sync.Mutex" }, "the Task field of type sync.Mutex")
	}
	// the completion message: the struct (declared in Run or at package level) made of a dag.ID and an error
	if p := rc.pkg("dag"); p != nil {
		for _, obj := range p.TypesInfo.Defs {
			tn, ok := obj.(*types.TypeName)
			if !ok {
				continue
			}
			n, ok := tn.Type().(*types.Named)
			if !ok {
				continue
			}
			st := structOf(n)
			if st == nil || st.NumFields() != 2 {
				continue
			}
			var idF, errF *types.Var
			for i := 0; i < 2; i++ {
				switch {
				case tstr(st.Field(i).Type()) == "dag.ID":
					idF = st.Field(i)
				case isErrorType(st.Field(i).Type()):
					errF = st.Field(i)
				}
			}
			if idF == nil || errF == nil {
				continue
			}
			rc.field(n, "ID", func(f *types.Var) bool { return f == idF }, "the dag.ID field of the completion message")
			rc.field(n, "Error", func(f *types.Var) bool { return f == errF }, "the error field of the completion message")
		}
	}
	return rc
}

// canonicalObj: the object that was selected for a canonical name in this discovery, if any.
func (rc *roleCtx) canonicalObj(canonical string) types.Object {
	for o, c := range rc.renames {
		if c == canonical {
			return o
		}
	}
	return nil
}

// regexGlobals: the two tokeniser expressions; the Windows one is the one whose pattern admits a leading slash.
func (rc *roleCtx) regexGlobals() {
	p := rc.pkg("getoptions")
	if p == nil {
		return
	}
	have1, have2 := rc.lookup("getoptions", "isOptionRegex") != nil, rc.lookup("getoptions", "isOptionRegexWindows") != nil
	if have1 && have2 {
		return
	}
	type cand struct {
		v   *types.Var
		pat string
	}
	var cands []cand
	for _, file := range p.Syntax {
		for _, d := range file.Decls {
			gd, ok := d.(*ast.GenDecl)
			if !ok || gd.Tok != token.VAR {
				continue
			}
			for _, sp := range gd.Specs {
				vs := sp.(*ast.ValueSpec)
				for i, id := range vs.Names {
					v, ok := p.TypesInfo.Defs[id].(*types.Var)
					if !ok || v.Exported() || tstr(v.Type()) != "*regexp.Regexp" || i >= len(vs.Values) {
						continue
					}
					call, ok := vs.Values[i].(*ast.CallExpr)
					if !ok || len(call.Args) != 1 {
						continue
					}
					tv, ok := p.TypesInfo.Types[call.Args[0]]
					if !ok || tv.Value == nil {
						continue
					}
					s, err := strconv.Unquote(tv.Value.ExactString())
					if err != nil {
						continue
					}
					cands = append(cands, cand{v, s})
				}
			}
		}
	}
	if len(cands) != 2 {
		return
	}
	slash := func(s string) bool { return strings.Contains(s, "|/") }
	a, b := cands[0], cands[1]
	if slash(a.pat) == slash(b.pat) {
		return
	}
	if slash(a.pat) {
		a, b = b, a
	}
	rc.want(a.v, "isOptionRegex", "the tokeniser expression without the slash alternative")
	rc.want(b.v, "isOptionRegexWindows", "the tokeniser expression with the slash alternative")
}

// enumByValue: the constants of an unexported enumeration, by position when their names changed. Applied only
// when the values are exactly 0..n-1 and every constant that kept a canonical name sits at its canonical value.
func (rc *roleCtx) enumByValue(short string, n *types.Named, canonical []string) {
	p := rc.pkg(short)
	if p == nil || n == nil {
		return
	}
	byVal := map[int64]*types.Const{}
	count := 0
	for _, name := range p.Types.Scope().Names() {
		c, ok := p.Types.Scope().Lookup(name).(*types.Const)
		if !ok || !types.Identical(c.Type(), n) {
			continue
		}
		count++
		v, err := strconv.ParseInt(c.Val().ExactString(), 10, 64)
		if err != nil {
			return
		}
		byVal[v] = c
	}
	if count != len(canonical) || len(byVal) != len(canonical) {
		return
	}
	for i, name := range canonical {
		c := byVal[int64(i)]
		if c == nil {
			return
		}
		for j, other := range canonical {
			if j != i && c.Name() == other {
				return // a canonical name at another position: the enumeration was reordered, not renamed
			}
		}
		_ = name
	}
	for i, name := range canonical {
		rc.want(byVal[int64(i)], name, fmt.Sprintf("constant %d of the enumeration", i))
	}
}

// renameOverlay rewrites every identifier that denotes a renamed object back to its canonical name.
// Returns nil if a rewrite would be captured by another declaration.
func (rc *roleCtx) renameOverlay(base map[string][]byte) (map[string][]byte, error) {
	w := rc.w
	type edit struct {
		off, end int
		text     string
	}
	edits := map[string][]edit{}
	for _, p := range w.Pkgs {
		// collision checks at package scope
		for obj, canonical := range rc.renames {
			if obj.Pkg() != p.Types {
				continue
			}
			if obj.Parent() == p.Types.Scope() && p.Types.Scope().Lookup(canonical) != nil {
				return nil, fmt.Errorf("canonical name %s is already declared in package %s", canonical, p.Name)
			}
		}
		visit := func(id *ast.Ident, obj types.Object) error {
			canonical, ok := rc.renames[obj]
			if !ok {
				return nil
			}
			// capture check (package-level objects only; fields and methods are reached through selectors):
			// the canonical name must not resolve to something else at this position
			selectorOnly := false
			if v, isVar := obj.(*types.Var); isVar && v.IsField() {
				selectorOnly = true
			}
			if f, isFunc := obj.(*types.Func); isFunc && f.Type().(*types.Signature).Recv() != nil {
				selectorOnly = true
			}
			if !selectorOnly {
				if inner := p.Types.Scope().Innermost(id.Pos()); inner != nil {
					if _, other := inner.LookupParent(canonical, id.Pos()); other != nil {
						return fmt.Errorf("canonical name %s is shadowed at %s", canonical, w.Pos(id.Pos()))
					}
				}
			}
			pos := w.Fset.Position(id.Pos())
			edits[pos.Filename] = append(edits[pos.Filename], edit{pos.Offset, pos.Offset + len(id.Name), canonical})
			return nil
		}
		for id, obj := range p.TypesInfo.Defs {
			if obj == nil {
				continue
			}
			if err := visit(id, obj); err != nil {
				return nil, err
			}
		}
		for id, obj := range p.TypesInfo.Uses {
			if err := visit(id, obj); err != nil {
				return nil, err
			}
		}
	}
	out := map[string][]byte{}
	for k, v := range base {
		out[k] = v
	}
	for file, es := range edits {
		src, ok := base[file]
		if !ok {
			b, err := os.ReadFile(file)
			if err != nil {
				return nil, err
			}
			src = b
		}
		sort.Slice(es, func(i, j int) bool { return es[i].off < es[j].off })
		var sb strings.Builder
		last := 0
		for i, e := range es {
			if i > 0 && e.off == es[i-1].off {
				continue // the same identifier seen through Defs and Uses (embedded fields)
			}
			if e.off < last || e.end > len(src) {
				return nil, fmt.Errorf("overlapping identifier edits in %s", file)
			}
			sb.Write(src[last:e.off])
			sb.WriteString(e.text)
			last = e.end
		}
		sb.Write(src[last:])
		out[file] = []byte(sb.String())
	}
	return out, nil
}

#!/bin/bash
# usage: scripts/check.sh <property-id> <quick|thorough>
# Static analysis of /repo's current working tree by /verif/bin/gochk (rebuilt from /verif/checker when missing or stale).
set -u
cd "$(dirname "$0")/.."
VERIF="$(pwd)"
REPO="${VERIF_REPO:-/repo}"
export GOPROXY=off GOSUMDB=off GOTOOLCHAIN=local GOWORK=off
unset GOFLAGS
PROP="$1"; TIER="${2:-${VERIF_TIER:-quick}}"
if [ ! -x "$VERIF/bin/gochk" ] || [ -n "$(find "$VERIF/checker" -maxdepth 1 -name '*.go' -newer "$VERIF/bin/gochk" 2>/dev/null | head -1)" ]; then
  mkdir -p "$VERIF/bin"
  (cd "$VERIF/checker" && GOFLAGS=-mod=vendor go build -o "$VERIF/bin/gochk" .) || { echo "cannot build gochk" >&2; exit 2; }
fi
exec "$VERIF/bin/gochk" -repo "$REPO" -verif "$VERIF" -prop "$PROP" -tier "$TIER"

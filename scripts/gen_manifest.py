#!/usr/bin/env python3
"""Writes /verif/MANIFEST.json from the table below (kept in one place so that it stays consistent)."""
import json, os
V = os.path.dirname(os.path.dirname(os.path.abspath(__file__)))
BASE = "for m in $(cat /w/out/gomods.txt); do MF=$(cd /repo/$m && . /w/out/goenv.sh && gomodflag); (cd /repo/$m && go test $MF -json -vet=off -count=1 -timeout 25m ./...); done"
TRUST = ("Trusted base: go/types, go/ssa, go/packages (golang.org/x/tools v0.29.0), regexp/syntax; the Go memory model; the standard "
         "library functions named in the rules behave as documented. Decides structural necessary conditions only; the clauses not decided are listed in DESIGN.md section 4 under the property and in the evidence file's assumptions.")
# id -> (claimed, category, technique, text)
P = {
 'C05': (True, 'other', 'dominance facts in the matcher and the parser (exact lookup before scan, HasPrefix(key, entry) guard, single-candidate gates), effect scan of the ambiguity edge, value identity of the lookup key / UsedAlias, who-may-use of the typed text (non-interference)',
         'For every table and every typed text: an exact name short-circuits the scan, candidates are exactly keys with the typed prefix at the cursor level, >1 candidates can only lead to an error return with no effect, and after resolution only the full declared name is used. Map/HasPrefix semantics trusted.'),
 'C06': (True, 'other', 'who-may-write / who-may-call tables over go/ssa (Called, UsedAlias, receiver pointers, Set*, Save), single-record identity in the match block, sibling agreement of the 12 definers and wrappers, New/Value/Save kind-to-field table cross-check',
         'Ownership argument: the only code that can change a user variable or Called/UsedAlias is reachable from a match of that very record (or SetValue/GetEnv/SetCalled); aliases share the record; definers store the default first and return the registered pointer. User-supplied modifiers not decided.'),
 'C07': (True, 'other', 'information-flow of the mode parameter (dominance facts in the splitter, who-may-use in the parser and Parse), AST structural equality of the long-option and Normal-mode branches modulo renaming, rune/byte unit lint, shape checks of the bundling and single-dash arms',
         'Complete for the clause "long options ignore the mode" and for Normal-mode equivalence; bundling and single-dash rewriting are pinned through structural necessary conditions only (string equalities themselves are value properties).'),
 'C01': (True, 'other', 'regexp/syntax analysis of the splitter patterns, backward provenance slices (token -> splitter -> Save -> receiver variable) with a transformer whitelist, converter identity and err==nil dominance, error-edge reachability, must-pass-through for Called/UsedAlias',
         'Every value path is covered for every input: the regexps admit any value text (newlines included) and any name without "="; no transformer other than the splitter\'s own cuts touches the text; numeric kinds store exactly strconv.Atoi / ParseFloat(_,64) results and only when err == nil, errors are returned; bool stores the negated write-once default, increment current+1, optional-without-value stores nothing. What strconv computes is trusted.'),
 'C02': (True, 'other', 'loop-shape analysis of the MinArgs/MaxArgs intake loops on go/ssa (strict bound, start value, one advance + one Save per iteration inside the natural loop), edge-filtered reachability for the per-kind look-ahead checks, look-ahead/Save converter agreement, append-chain order, first-= split, range-expansion shape, definition-time validation',
         'Structural necessary conditions of the multi-value clauses on every path. Not decided: the arithmetic total of consumed tokens beyond the loop shape.'),
 'C03': (True, 'other', 'token typestate dataflow over go/ssa (no token dropped), who-may-write + provenance slice of the remaining accumulator, once-per-token cycle rule, accumulator hand-off at cursor moves',
         'Every path of parseCLIArgs (normal mode) is covered: each token gets a disposition before the next advance/return, pass-through appends are verbatim, at most once per token and survive command descent, Parse returns the final node\'s list unmodified. Does not decide that the consumed tokens are the right ones.'),
 'C04': (True, 'other', 'dominance of the terminator test over every interpretation effect, edge-region effect scan, look-ahead guard facts, post-bulk-copy reachability (go/ssa CFG)',
         'On every path of parseCLIArgs: effects on a token are only reachable when it is not `--`; the terminator edge only advances and bulk-copies; every greedy look-ahead advance is dominated by peeked != "--"; nothing is interpreted after a bulk copy; optional kinds cannot enter the mandatory-value loop.'),
 'C08': (True, 'other', 'must-pass-through on the no-match edge, mode-specialised path-sensitive reachability (Pass/Warn), policy-loop shape in Parse, inheritance of cursor-read configuration in child literals, hand-off at cursor moves',
         'Every path from the no-match edge records the unknown option built from the verbatim token; Pass/Warn keep the token in the remaining list; Parse applies Fail/Warn before any success return; child nodes inherit unknownMode/requireOrder; records survive command descent. Message wording not decided.'),
 'C09': (True, 'other', 'guard facts at both stop sites, who-may-read (non-interference) of requireOrder, helper summary by typestate, post-bulk-copy reachability, inheritance in child literals',
         'Both stop sites are guarded by the cursor\'s requireOrder and placed after matcher/command scan; non-ordered handling is excluded under the flag; the helper copies current+rest verbatim and drains the iterator; nothing is interpreted afterwards; the flag is read nowhere else, so parsing before the stop point cannot depend on it.'),
 'C10': (True, 'other', 'who-may-call of CommandFn values, operand identity at the single call site, cursor-move analysis on go/ssa (key equality with the current plain token, target = matched entry, dominated by failed terminator and splitter tests), who-may-write of finalNode, pointer-sharing shape of the options copy, token typestate',
         'Exactly one user function can be invoked per Dispatch, it is the final node\'s, with the caller\'s ctx, the given remaining list and a view of the final node; the final node is the result of the last cursor move, and the cursor moves only on a fresh plain token equal to a command name of the current level. User functions are out of scope.'),
 'C11': (True, 'other', 'must-pass-through and edge dominance in Dispatch and Parse (help test → required gate → call on the nil edge), gate summary (scans every record, wraps ErrorParsing with %w), exhaustive finite evaluation of CheckRequired over (IsRequired, Called), help-edge effect scan',
         'For every tree and argv: no path reaches a CommandFn without passing the required gate of the selected node on its nil edge; help bypasses the gate and never reaches the user function; CheckRequired is non-nil exactly for required-and-not-called.'),
 'C12': (True, 'other', 'who-may-call of os.Getenv, CHA call-graph reachability from Parse/Dispatch (no modifier, no named environment read), definer order (default before modifiers), shape of the GetEnv modifier (guards, kinds, verbatim Save, SetCalled(name))',
         'The environment can only be applied at definition time, after the default was stored and before any command-line Save; the modifier handles the seven scalar kinds, saves the text verbatim (bool: true/false only), ignores empty values and records the variable name as CalledAs.'),
 'C13': (True, 'other', 'who-may-access of Vertex.status (goroutine confinement), exhaustive finite evaluation of the readiness predicate over the four status values with boolean-phi tracking, must-pass-through for the in-progress mark, retry-loop shape, exactly-one-send per goroutine path',
         'For every schedule: the status is only touched by the scheduler goroutine; a vertex is offered only when pending/skip and no child is pending or in progress (all 4x2 child-status/flag cases evaluated); it is marked before the next offer; Task.Fn has one call site in a loop of at most Retries+1 attempts that stops at the first nil; each goroutine reports exactly once with the last error. Memory-model visibility is trusted.'),
 'C14': (True, 'other', 'dominance of the error-list-empty edge over the task launch, append-only discipline of the error list, path exploration of the cancellation arm, completion-arm shape (wrapping with %w, ErrorSkipParents propagation, structural recursion of skipParents), branch payloads, result shape, edge symmetry',
         'On every path of the scheduler: no task goroutine is launched once an error or cancellation was recorded, the list only grows, failures are wrapped and recorded, skip propagation reaches every transitive dependent, gated tasks report ErrorTaskSkipped, Run returns the list iff non-empty. "In-flight tasks may finish" (liveness) not decided.'),
 'C15': (True, 'other', 'lock/semaphore pairing on go/ssa (acquire must-pass-through before Task.Fn, release only deferred), capacity provenance (maxParallel, positive writers), critical-section check around the output writer, finite evaluation of the serial scan',
         'The structural conditions that make the channel-semaphore and mutex arguments go through hold on every path; in serial mode nothing is offered while any vertex is in progress. The bound itself follows from channel/mutex semantics (trusted).'),
 'C16': (True, 'other', 'dominance of the cycle check, insert-only rule for the vertex table, exactly-one completion per goroutine, finite evaluation of the done counter, launch must-pass-through, edge symmetry, three-colour DFS shape',
         'Necessary conditions for termination and for cycle rejection on every path and for every construction order of the graph (the insert-only rule is what the AddTask-after-TaskDependsOn defect violated). Liveness itself (Run returns, work conservation) is not decided.'),
 'C19': (True, 'other', 'enumeration of every index / slice / type-assertion / panic site reachable (CHA) from Parse, Dispatch, Help and completion, each discharged by a guard rule over dominating facts (length facts, range counters, regexp group analysis, SplitN+Contains, sort callbacks, kind/type agreement, iterator-after-Next); loop and recursion termination inventory; return-shape check',
         'All ~380 panic-capable sites and all ~45 loops in reachable library code are individually discharged on the current tree; an undischarged site fails the check. General nil-dereference freedom, memory/stack exhaustion and user callbacks are not decided.'),
 'C20': (True, 'proof', 'order-taint analysis over go/ssa: every map range is an unordered loop whose effects must be order-insensitive; slices derived from it are followed inter-procedurally (appends, parameters, results, struct fields) to sinks that must be sort / len / range / singleton index; allow-list of reachable standard-library calls; unique-key check for the unstable sort; formatting operand types',
         'Proof modulo the trusted base: if every obligation is discharged no observable output can depend on map iteration order or on a hidden-state source, for every definition and input. Trusted: determinism of the allow-listed stdlib functions and of the compiler; package dag and the debug Logger are outside C20.'),
 'C17': (True, 'other', 'must-pass-through of exitFn on the COMP_LINE edge, CHA reachability (no CommandFn from the parser / completion edge), sorted-value identity at the completion returns, HasPrefix guard facts and completeness must-pass-through for every table-derived candidate',
         'For every tree and partial line: completion always leaves through the exit path, never runs a command, returns sorted lists, and every option/command/suggestion candidate is offered iff it starts with the typed text at the level reached. Not decided: equality with the specification for value completion; acceptance of each candidate by the parser.'),
 'C18': (True, 'other', 'switch coverage over option.Type (typed AST), filter analysis of the option and command scans, total partition + render checks in both renderers, who-may-call of the section renderers, field-use facts in the per-option line, derived-field freshness (Synopsis() after every write of its inputs)',
         'Structural conditions for "every option/alias/command exactly once, under the right heading, with default and env var, same text on all routes". Layout (wrapping, multi-line descriptions) is not decided.'),
}
NOT_YET = 'static check for this property is not built yet (work in progress; see DESIGN.md section 4 for the planned rules)'
checks, na = [], []
for i in range(1, 21):
    pid = 'C%02d' % i
    if pid in P and P[pid][0]:
        _, cat, tech, text = P[pid]
        checks.append({
            'property_id': pid,
            'quick_cmd': 'scripts/check.sh %s quick' % pid,
            'thorough_cmd': 'scripts/check.sh %s thorough' % pid,
            'evidence_file': '/verif/evidence/%s.json' % pid,
            'replay_cmd_template': 'bin/gochk -explain {path}',
            'engine': 'gochk',
            'level_claimed': {'category': cat, 'text': text, 'design_ref': 'DESIGN.md section 4, ' + pid},
            'level_note': TRUST,
            'technique': 'static analysis: ' + tech,
        })
    else:
        reason = P[pid][3] if pid in P else NOT_YET
        na.append({'property_id': pid, 'reason': reason})
m = {
 'version': 1,
 'setup_cmd': 'mkdir -p /verif/bin && cd /verif/checker && GOFLAGS=-mod=vendor GOPROXY=off GOSUMDB=off GOTOOLCHAIN=local GOWORK=off go build -o /verif/bin/gochk .',
 'hooks': {'guard': 'verif', 'enable': 'none needed: the checks analyse the unmodified sources statically, /repo carries no instrumentation',
           'baseline_off_cmd': BASE, 'source_commits': [], 'add_only': True},
 'engines': [{'name': 'gochk', 'path': 'checker/', 'serves_properties': [c['property_id'] for c in checks],
              'kind_free_text': 'custom repository-specific static analyser (typed AST + go/ssa + call graph + regexp/syntax); no repository code is executed'}],
 'checks': checks,
 'not_applicable': na,
 'notes': 'All checks are static analysis of /repo\'s working tree by one binary (bin/gochk, built by setup_cmd from checker/ with vendored golang.org/x/tools v0.29.0). Before the rules run the tree is normalised in memory (unexported anchors located by role when renamed; functions that are not in the reference table inlined into their callers), see DESIGN.md 10.9. Thorough tier = quick + other build configurations + the sensitivity corpus (mutants/corpus.json applied through in-memory overlays) + the independently seeded changes (seeded/, must be reported) + the independently written refactorings (benign/, must stay silent), each applied to a throw-away copy outside /repo and /verif. Genuine defects found and repaired are in known_findings.txt (fixed: lines).',
}
json.dump(m, open(os.path.join(V, 'MANIFEST.json'), 'w'), indent=1)
print('claimed', len(checks), 'not_applicable', len(na))

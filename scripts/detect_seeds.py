#!/usr/bin/env python3
"""Fast refresh of detected_by in seeded/*/meta.json: applies each patch to a scratch copy of /repo (outside /repo
and /verif, removed afterwards) and runs gochk once for all properties on it. Build / suite / demonstration are NOT
re-run here (scripts/refresh_seeds.py does the full confirmation); this only re-evaluates the static checks.
usage: detect_seeds.py [-j N] [ids or properties...]"""
import json, glob, os, subprocess, re, sys, tempfile, shutil
from concurrent.futures import ThreadPoolExecutor
V=os.path.dirname(os.path.dirname(os.path.abspath(__file__)))
args=sys.argv[1:]; jobs=8
if args[:1]==['-j']: jobs=int(args[1]); args=args[2:]
env=dict(os.environ, GOFLAGS='-mod=mod', GOPROXY='off', GOSUMDB='off', GOTOOLCHAIN='local', GOWORK='off')
def detect(patch):
    t=tempfile.mkdtemp(prefix='detchk.', dir='/tmp')
    try:
        subprocess.run(['bash','-c',f'cp -r /repo/. {t} && rm -rf {t}/.git'],check=True)
        r=subprocess.run(['git','apply','--unsafe-paths','--directory='+t, patch],cwd=t,capture_output=True,text=True)
        if r.returncode!=0: return None
        r=subprocess.run([os.environ.get('GOCHK', V+'/bin/gochk'),'-repo',t,'-verif',V,'-prop','all','-no-evidence'],capture_output=True,text=True,env=env)
        dets={}; cur=None
        for l in r.stdout.splitlines():
            m=re.match(r'== (C\d\d):',l)
            if m: cur=m.group(1); continue
            m=re.search(r'(violated|undecided) \[(R[0-9.a-z]+)\]',l)
            if m and cur: dets.setdefault(cur,set()).add(m.group(2))
        return {k:sorted(v) for k,v in sorted(dets.items())}
    finally:
        shutil.rmtree(t,ignore_errors=True)
def work(f):
    d=os.path.dirname(f); m=json.load(open(f))
    dets=detect(d+'/patch.diff')
    if dets is None: return m['id'],'APPLY-FAILED'
    m['detected_by']=dets; m['detected_by_own_property']=m['property'] in dets
    json.dump(m,open(f,'w'),indent=1)
    return m['id'],('own' if m['detected_by_own_property'] else 'MISSED-BY-OWN')+' '+' '.join(f"{k}:{','.join(v)}" for k,v in dets.items())
files=[f for f in sorted(glob.glob(V+'/seeded/*/meta.json')) if not args or json.load(open(f))['id'] in args or json.load(open(f))['property'] in args]
bad=0
with ThreadPoolExecutor(jobs) as ex:
    for sid,res in ex.map(work,files):
        print(sid,res)
        if not res.startswith('own'): bad+=1
print(f'{len(files)} seeded changes, {bad} not reported by their own property')
sys.exit(1 if bad else 0)

#!/bin/bash
# usage: pair_diff.sh <seeddir> -> obligations (rule key) failing on the faulty rewrite but not on its correct twin
export GOFLAGS=-mod=mod GOPROXY=off GOSUMDB=off GOTOOLCHAIN=local GOWORK=off
D="$1"; s=$(basename $D); P=$(echo $s | cut -c1-3)
run() { T=$(mktemp -d /tmp/pd.XXXXXX); cp -r /repo/. $T; rm -rf $T/.git; (cd $T && git apply --unsafe-paths --directory=$T "$1") || { echo apply-failed; rm -rf $T; return; }
  ${GOCHK:-/tmp/gochk_dev} -repo $T -verif /verif -prop all -no-evidence 2>&1 | grep -E "^  .*(violated|undecided) \[" | sed -E 's/^ +[^ ]+: (violated|undecided) \[(R[0-9.a-z]+)\] ([^:]+):.*/\2 \3/' | sort -u; rm -rf $T; }
run $D/patch.diff > /tmp/pd.$s.bad; run $D/patch_ok.diff > /tmp/pd.$s.ok
own=$(echo $P | sed 's/C/R/')
spec=$(comm -23 /tmp/pd.$s.bad /tmp/pd.$s.ok | grep "^$own\." | tr '\n' ';' | cut -c1-300)
other=$(comm -23 /tmp/pd.$s.bad /tmp/pd.$s.ok | grep -v "^$own\." | cut -d' ' -f1 | sort -u | tr '\n' ',' | cut -c1-120)
echo "PAIR $s twin_alarms=$(wc -l < /tmp/pd.$s.ok) own_specific=[$spec] other_specific=[$other]"
rm -f /tmp/pd.$s.bad /tmp/pd.$s.ok

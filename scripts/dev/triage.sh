#!/bin/bash
# usage: triage.sh <patch> -> prints violated/undecided lines for all properties
export GOFLAGS=-mod=mod GOPROXY=off GOSUMDB=off GOTOOLCHAIN=local GOWORK=off
P="$1"; T=$(mktemp -d /tmp/tri.XXXXXX); cp -r /repo/. $T; rm -rf $T/.git
(cd $T && git apply --unsafe-paths --directory=$T "$P") || { echo apply-failed; rm -rf $T; exit; }
echo "##### $(basename $P)"
${GOCHK:-/tmp/gochk_dev} -repo $T -verif /verif -prop all -no-evidence 2>&1 | grep -E "violated|undecided|analysed as a separate" | grep -v "^==" | sed "s#$T/##g" | cut -c1-260 | sort -u | head -${2:-12}
rm -rf $T

#!/bin/bash
# usage: det1.sh <seeddir> <prop>  -> own-property detection with dev binary
T=$(mktemp -d /tmp/tri.XXXXXX); cp -r /repo/. $T; rm -rf $T/.git
(cd $T && git apply --unsafe-paths --directory=$T "$1/patch.diff") || { echo "$1 apply-failed"; rm -rf $T; exit; }
out=$(${GOCHK:-/tmp/gochk_dev} -repo $T -verif /verif -prop $2 -no-evidence 2>&1)
echo "$(basename $1) $2: $(echo "$out" | grep -oE '(violated|undecided) \[R[0-9.a-z]+\]' | sed 's/.*\[//;s/\]//' | sort -u | tr '\n' ',')"
rm -rf $T

#!/bin/bash
# usage: ok_check.sh <seeddir>  -> checks patch_ok.diff: applies, builds, suite passes, demo passes, which checks fire
export GOFLAGS=-mod=mod GOPROXY=off GOSUMDB=off GOTOOLCHAIN=local GOWORK=off
D="$1"; P="$D/patch_ok.diff"; T=$(mktemp -d /tmp/okchk.XXXXXX); cp -r /repo/. $T; rm -rf $T/.git
[ -f "$P" ] || { echo "OK $D missing"; rm -rf $T; exit; }
(cd $T && git apply --unsafe-paths --directory=$T "$P" 2>/dev/null) || { echo "OK $D apply-failed"; rm -rf $T; exit; }
(cd $T && go build ./... >/dev/null 2>&1) || { echo "OK $D build-failed"; rm -rf $T; exit; }
(cd $T && timeout 300 go test -count=1 -timeout 120s . ./internal/... ./dag >/dev/null 2>&1); S=$?
DEMO_REL="$(cat "$D/demo_path.txt" 2>/dev/null | head -1 | tr -d '\r\n ')"; DEMO_SRC="$(ls "$D"/*_test.go 2>/dev/null | head -1)"
[ -z "$DEMO_REL" ] && DEMO_REL="$(basename "$DEMO_SRC")"
mkdir -p "$T/$(dirname "$DEMO_REL")"; cp "$DEMO_SRC" "$T/$DEMO_REL"
(cd $T && timeout 200 go test -count=1 -timeout 100s "./$(dirname "$DEMO_REL")" >/dev/null 2>&1); W=$?
rm -f "$T/$DEMO_REL"
DET=""
for i in $(seq -w 1 20); do
  out=$(${GOCHK:-/verif/bin/gochk} -repo $T -verif /verif -prop C$i -no-evidence 2>&1); rc=$?
  if [ $rc -ne 0 ]; then DET="$DET C$i:$(echo "$out" | grep -oE '(violated|undecided) \[R[0-9.a-z]+\]' | sed 's/.*\[//;s/\]//' | sort -u | tr '\n' ',')"; fi
done
echo "OK $D suite=$([ $S -eq 0 ] && echo pass || echo FAIL) demo=$([ $W -eq 0 ] && echo pass || echo FAIL) fired=[$DET ]"
rm -rf $T

#!/bin/bash
# usage: scripts/seed_check.sh <seed-dir> <property-id> [all]
# Confirms a seeded change (patch.diff + demo test) in a scratch worktree of /repo outside /repo and /verif:
#   1. the patch applies, the tree builds, the repository's own suite still passes (with a timeout),
#   2. the demonstration fails with the patch and passes without it,
#   3. what the static checks say about the patched tree (gochk -repo <scratch>, no evidence written).
# Prints one summary line: SEED <dir> build=.. suite=.. demo_with=.. demo_without=.. detected_by=[..]
set -u
SEED="$(cd "$1" && pwd)"; PROP="$2"; ALL="${3:-}"
export GOFLAGS=-mod=mod GOPROXY=off GOSUMDB=off GOTOOLCHAIN=local GOWORK=off
VERIF=/verif
WT="$(mktemp -d /tmp/seedchk.XXXXXX)"
cleanup() { git -C /repo worktree remove --force "$WT" >/dev/null 2>&1; rm -rf "$WT"; }
trap cleanup EXIT
git -C /repo worktree add -q --detach "$WT" HEAD || { echo "SEED $SEED worktree-failed"; exit 2; }
DEMO_REL="$(cat "$SEED/demo_path.txt" 2>/dev/null | head -1 | tr -d '\r\n ')"
DEMO_SRC="$(ls "$SEED"/*_test.go 2>/dev/null | head -1)"
[ -z "$DEMO_REL" ] && DEMO_REL="$(basename "$DEMO_SRC")"
PKG="./$(dirname "$DEMO_REL")"
# demo without the patch
mkdir -p "$WT/$(dirname "$DEMO_REL")"; cp "$DEMO_SRC" "$WT/$DEMO_REL"
(cd "$WT" && timeout 120 go test -count=1 -timeout 60s "$PKG" >/tmp/seedchk.$$.without.log 2>&1); W0=$?
rm -f "$WT/$DEMO_REL"
# patch
if ! git -C "$WT" apply "$SEED/patch.diff" 2>/tmp/seedchk.$$.apply.log; then echo "SEED $SEED apply=FAILED $(head -1 /tmp/seedchk.$$.apply.log)"; exit 1; fi
(cd "$WT" && go build ./... >/tmp/seedchk.$$.build.log 2>&1 && go vet . ./internal/... ./dag >>/tmp/seedchk.$$.build.log 2>&1); B=$?
(cd "$WT" && timeout 300 go test -count=1 -timeout 120s . ./internal/... ./dag >/tmp/seedchk.$$.suite.log 2>&1); S=$?
cp "$DEMO_SRC" "$WT/$DEMO_REL"
(cd "$WT" && timeout 120 go test -count=1 -timeout 60s "$PKG" >/tmp/seedchk.$$.with.log 2>&1); W1=$?
rm -f "$WT/$DEMO_REL"
# static checks on the patched tree
DET=""
PROPS="$PROP"
[ -n "$ALL" ] && PROPS="$(seq -f 'C%02g' 1 20 | tr '\n' ' ')"
for p in $PROPS; do
  out="$("$VERIF/bin/gochk" -repo "$WT" -verif "$VERIF" -prop "$p" -no-evidence 2>&1)"; rc=$?
  if [ $rc -ne 0 ]; then
    rules="$(echo "$out" | grep -oE '(violated|undecided) \[R[0-9.a-z]+\]' | sed 's/.*\[//;s/\]//' | sort -u | tr '\n' ',')"
    DET="$DET $p:${rules%,}"
    [ "$p" = "$PROP" ] && echo "$out" | grep -E "^  .*(violated|undecided)" | head -5 | sed 's/^/      /'
  fi
done
echo "SEED $SEED prop=$PROP build=$([ $B -eq 0 ] && echo ok || echo FAIL) suite=$([ $S -eq 0 ] && echo pass || echo FAIL) demo_without=$([ $W0 -eq 0 ] && echo pass || echo FAIL) demo_with=$([ $W1 -ne 0 ] && echo fails || echo PASSES) detected_by=[${DET# }]"

#!/bin/bash
# usage: rf_check.sh <patch>  -> prints which property checks fire on the patched copy
export GOFLAGS=-mod=mod GOPROXY=off GOSUMDB=off GOTOOLCHAIN=local GOWORK=off
P="$1"; T=$(mktemp -d /tmp/rfchk.XXXXXX); cp -r /repo/. $T; rm -rf $T/.git
(cd $T && git apply --unsafe-paths --directory=$T "$P" 2>/dev/null) || { echo "RF $P apply-failed"; rm -rf $T; exit; }
(cd $T && go build ./... >/dev/null 2>&1) || { echo "RF $P build-failed"; rm -rf $T; exit; }
(cd $T && timeout 200 go test -count=1 -timeout 120s . ./internal/... ./dag >/dev/null 2>&1); S=$?
DET=""
for i in $(seq -w 1 20); do
  out=$(${GOCHK:-/verif/bin/gochk} -repo $T -verif /verif -prop C$i -no-evidence 2>&1); rc=$?
  if [ $rc -ne 0 ]; then DET="$DET C$i:$(echo "$out" | grep -oE '(violated|undecided) \[R[0-9.a-z]+\]' | sed 's/.*\[//;s/\]//' | sort -u | tr '\n' ',')"; fi
done
echo "RF $P suite=$([ $S -eq 0 ] && echo pass || echo FAIL) fired=[$DET ]"
rm -rf $T

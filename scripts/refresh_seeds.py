#!/usr/bin/env python3
"""Re-confirms every seeded change under seeded/ (scripts/seed_check.sh ... all) and refreshes detected_by in its meta.json."""
import json, glob, os, subprocess, re, sys
V=os.path.dirname(os.path.dirname(os.path.abspath(__file__)))
bad=0
for f in sorted(glob.glob(V+'/seeded/*/meta.json')):
    d=os.path.dirname(f); m=json.load(open(f))
    if len(sys.argv)>1 and m['id'] not in sys.argv[1:] and m['property'] not in sys.argv[1:]: continue
    r=subprocess.run([V+'/scripts/seed_check.sh', d, m['property'], 'all'], capture_output=True, text=True)
    line=[l for l in r.stdout.splitlines() if l.startswith('SEED')]
    mm=re.search(r'build=(\S+) suite=(\S+) demo_without=(\S+) demo_with=(\S+) detected_by=\[(.*)\]', line[0]) if line else None
    if not mm or mm.group(1)!='ok' or mm.group(2)!='pass' or mm.group(3)!='pass' or mm.group(4)!='fails':
        print(m['id'],'NOT CONFIRMED', line); bad+=1; continue
    dets={}
    for tok in mm.group(5).split():
        k,_,v=tok.partition(':'); dets[k]=v.split(',') if v else []
    m['detected_by']=dets; m['detected_by_own_property']=m['property'] in dets
    json.dump(m, open(f,'w'), indent=1)
    print(m['id'], 'own' if m['detected_by_own_property'] else 'MISSED-BY-OWN')
sys.exit(1 if bad else 0)

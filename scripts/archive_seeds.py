#!/usr/bin/env python3
"""archive_seeds.py <src-dir> <round> <results-file>...
Copies confirmed seeded changes (<src-dir>/<id>/{patch.diff,notes.md,*_test.go,demo_path.txt}) to /verif/seeded/<id>/
and writes meta.json.  A seed is archived only if the results file (output of scripts/seed_check.sh, one SEED line
per seed) shows: build=ok suite=pass demo_without=pass demo_with=fails.  detected_by is filled by detect_seeds.py."""
import json, os, re, shutil, sys
src, rnd = sys.argv[1], int(sys.argv[2])
res = {}
for f in sys.argv[3:]:
    for line in open(f):
        m = re.match(r'SEED (\S+) prop=(\S+) build=(\S+) suite=(\S+) demo_without=(\S+) demo_with=(\S+)', line)
        if m:
            res[os.path.basename(m.group(1))] = m.groups()[1:]
def needs(notes):
    lines = notes.splitlines()
    for i, l in enumerate(lines):
        if l.startswith('#') and re.search(r'need|manifest|to show', l, re.I):
            out = []
            for l2 in lines[i + 1:]:
                if l2.startswith('#'):
                    break
                out.append(l2.strip())
            return re.sub(r'\s+', ' ', ' '.join(out)).strip()[:900]
    return re.sub(r'\s+', ' ', notes)[:400]
n = 0
for sid in sorted(os.listdir(src)):
    d = os.path.join(src, sid)
    r = res.get(sid)
    if not r or r[1:] != ('ok', 'pass', 'pass', 'fails'):
        print('SKIP', sid, r)
        continue
    dst = os.path.join('/verif/seeded', sid)
    os.makedirs(dst, exist_ok=True)
    for f in os.listdir(d):
        if f == 'meta.json':
            continue
        shutil.copy(os.path.join(d, f), os.path.join(dst, f))
    demo = [f for f in os.listdir(d) if f.endswith('_test.go')][0]
    dp = open(os.path.join(d, 'demo_path.txt')).read().strip() if os.path.exists(os.path.join(d, 'demo_path.txt')) else demo
    notes = open(os.path.join(d, 'notes.md')).read() if os.path.exists(os.path.join(d, 'notes.md')) else ''
    meta = {
        'id': sid, 'property': r[0], 'round': rnd,
        'origin': 'independent sub-agent given only the property text and a scratch worktree of /repo',
        'needs_to_manifest': needs(notes),
        'demo_test': demo, 'demo_path_in_repo': dp,
        'confirmed': {'applies_and_builds': True, 'repository_suite_passes_with_change': True,
                      'demo_passes_without_change': True, 'demo_fails_with_change': True},
        'what_was_run': [
            'scripts/seed_check.sh <seed dir> %s all   (scratch worktree of /repo under /tmp, removed afterwards): git apply, go build ./..., go vet, go test -count=1 -timeout 120s . ./internal/... ./dag, demo with and without the patch, gochk -repo <scratch> -prop C01..C20 -no-evidence' % r[0],
            'scripts/detect_seeds.py (re-evaluation of the static checks after they were strengthened)'],
        'detected_by': {}, 'detected_by_own_property': False,
    }
    json.dump(meta, open(os.path.join(dst, 'meta.json'), 'w'), indent=1)
    n += 1
print('archived', n)

#!/usr/bin/env python3
"""gen_open_alarms.py - regenerates benign_open/ALARMS.txt: per open refactoring, the rules that (wrongly) fire on it.
Uses scripts/dev/rf_check.sh (scratch copy of /repo under /tmp, removed afterwards)."""
import os, re, subprocess, sys
from concurrent.futures import ThreadPoolExecutor
V = os.path.dirname(os.path.dirname(os.path.abspath(__file__)))
d = os.path.join(V, 'benign_open')
diffs = sorted(f for f in os.listdir(d) if f.endswith('.diff'))
def run(f):
    out = subprocess.run([os.path.join(V, 'scripts/dev/rf_check.sh'), os.path.join(d, f)], capture_output=True, text=True).stdout
    m = re.search(r'fired=\[(.*)\]', out)
    rules = []
    for part in (m.group(1) if m else '').split():
        p, _, rs = part.partition(':')
        rules += ['%s:%s' % (p, r) for r in rs.split(',') if r]
    return f, rules
with ThreadPoolExecutor(6) as ex:
    rows = list(ex.map(run, diffs))
with open(os.path.join(d, 'ALARMS.txt'), 'w') as o:
    for f, rules in rows:
        o.write('%s %s\n' % (f, ' '.join(rules) if rules else '(silent: move to benign/)'))
print(len(rows), 'open refactorings;', sum(1 for _, r in rows if not r), 'now silent')

#!/bin/bash
# usage: scripts/check_reverts.sh
# For each "fix:" commit of /repo: undo it in a scratch copy (outside /repo and /verif, removed afterwards) and list
# the rules that report the defect again. A fixed entry of known_findings.txt suppresses nothing: the property of
# each fix must be among the reporters.
cd "$(dirname "$0")/.."
for c in $(git -C /repo log --format=%h --grep='^fix:' ); do
  T=$(mktemp -d /tmp/rev.XXXXXX); cp -r /repo/. $T; rm -rf $T/.git
  git -C /repo show $c -- . ':!*_test.go' > $T.patch
  if ! (cd $T && git apply -R --unsafe-paths --directory=$T $T.patch 2>/dev/null); then echo "$c revert does not apply (later fixes touch the same lines)"; rm -rf $T $T.patch; continue; fi
  out=""
  for i in $(seq -w 1 20); do
    o=$(bin/gochk -repo $T -verif "$(pwd)" -prop C$i -no-evidence 2>&1) || out="$out C$i:$(echo "$o" | grep -oE '(violated|undecided) \[R[0-9.a-z]+\]' | sed 's/.*\[//;s/\]//' | sort -u | head -3 | tr '\n' ',')"
  done
  echo "$c $(git -C /repo log -1 --format=%s $c | cut -c1-60) => $out"
  rm -rf $T $T.patch
done

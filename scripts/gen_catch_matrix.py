#!/usr/bin/env python3
"""Regenerates the 'which checks catch which changes' table in DESIGN.md from seeded/*/meta.json."""
import json, glob, os, re
V=os.path.dirname(os.path.dirname(os.path.abspath(__file__)))
rows=[]
for f in sorted(glob.glob(V+'/seeded/*/meta.json')):
    m=json.load(open(f))
    own=m['detected_by'].get(m['property'],[])
    others=', '.join(f"{k}:{'/'.join(v)}" for k,v in sorted(m['detected_by'].items()) if k!=m['property'])
    rows.append(f"| {m['id']} | {m['needs_to_manifest'].replace('|','/')} | {', '.join(own) if own else '**missed**'} | {others} |")
n=len(rows); nown=sum(1 for r in rows if '**missed**' not in r)
txt=f"""<!-- CATCH-MATRIX-BEGIN -->
### 10.6 Independently seeded changes: which checks catch which changes

{n} changes were written by fresh sub-agents that were given only the text of one property and a scratch
worktree of `/repo` (nothing from `/verif`). Every one was confirmed in a scratch worktree (`scripts/seed_check.sh`):
it applies, builds, passes the repository's own suite, and its demonstration test fails with the change and passes
without it. They are kept under `seeded/<id>/` (patch.diff, demonstration, notes.md, meta.json). The thorough tier
re-applies each one to a throw-away copy of the current tree and re-runs the rules on it.
Detected by the check of their own property: {nown}/{n}.

| id | what it needs to manifest | rules of its own property that report it | other properties' rules that also report it |
|----|---------------------------|------------------------------------------|---------------------------------------------|
""" + "\n".join(rows) + "\n<!-- CATCH-MATRIX-END -->\n"
p=V+'/DESIGN.md'; s=open(p).read()
if '<!-- CATCH-MATRIX-BEGIN -->' in s:
    s=re.sub(r'<!-- CATCH-MATRIX-BEGIN -->.*<!-- CATCH-MATRIX-END -->\n', lambda _: txt, s, flags=re.S)
else:
    s=s.rstrip('\n')+'\n\n'+txt
open(p,'w').write(s)
print(n,'seeds,',nown,'caught by own property')

#!/usr/bin/env python3
"""Applies every behaviour-preserving refactoring under benign/ to a scratch copy of /repo (outside /repo and /verif,
removed afterwards) and runs all checks on it: every one must stay silent. usage: check_benign.py [-j N] [name-substring...]"""
import glob, os, subprocess, re, sys, tempfile, shutil
from concurrent.futures import ThreadPoolExecutor
V=os.path.dirname(os.path.dirname(os.path.abspath(__file__)))
args=sys.argv[1:]; jobs=8
if args[:1]==['-j']: jobs=int(args[1]); args=args[2:]
env=dict(os.environ, GOFLAGS='-mod=mod', GOPROXY='off', GOSUMDB='off', GOTOOLCHAIN='local', GOWORK='off')
def work(patch):
    t=tempfile.mkdtemp(prefix='benchk.', dir='/tmp')
    try:
        subprocess.run(['bash','-c',f'cp -r /repo/. {t} && rm -rf {t}/.git'],check=True)
        r=subprocess.run(['git','apply','--unsafe-paths','--directory='+t, patch],cwd=t,capture_output=True,text=True)
        if r.returncode!=0: return patch,'APPLY-FAILED '+r.stderr[:200]
        r=subprocess.run([os.environ.get('GOCHK', V+'/bin/gochk'),'-repo',t,'-verif',V,'-prop','all','-no-evidence'],capture_output=True,text=True,env=env)
        dets=[]; cur=None
        for l in r.stdout.splitlines():
            m=re.match(r'== (C\d\d):',l)
            if m: cur=m.group(1); continue
            m=re.search(r'(violated|undecided) \[(R[0-9.a-z]+)\]',l)
            if m and cur: dets.append(cur+':'+m.group(2))
        if r.returncode not in (0,1): return patch,'CHECKER-ERROR '+(r.stderr or r.stdout)[-300:]
        return patch,' '.join(sorted(set(dets)))
    finally:
        shutil.rmtree(t,ignore_errors=True)
files=[f for f in sorted(glob.glob(V+'/benign/*.diff')) if not args or any(a in f for a in args)]
bad=0
with ThreadPoolExecutor(jobs) as ex:
    for f,res in ex.map(work,files):
        if res:
            bad+=1; print('ALARM',os.path.basename(f),res)
print(f'{len(files)} refactorings, {bad} raise an alarm')
sys.exit(1 if bad else 0)
